package rules

import (
	"os"
	"fmt"
	"strconv"
	"go/types"
	"go/token"
	"sort"
	"strings"

	"gunyucheck/core"

	"golang.org/x/tools/go/ssa"
)

func init() {
	All["C20"] = c20
	core.Explanations["C20"] = "Decides necessary structural conditions of 'pre-existing target keys are handled as the configured policy says, on any path', by enumerating every path of RdbReplay.Replay (RESTORE retry loop unrolled once): " +
		"(R20.1) the existence probe and the DEL of the replace policy run only for the first chunk of a value, the probe's error is tested, and the probe precedes the first expanded write; (R20.2) both policy switches cover exactly {replace, ignore, error} and the configuration normalises to that set; " +
		"(R20.3) after 'key exists' under ignore no write (expansion, PEXPIRE, RESTORE REPLACE, DEL) follows on the path, the skipped key is remembered, and later chunks consult that memo before writing; (R20.4) under error the path returns a non-nil error before any write; " +
		"(R20.5) under replace the old key is deleted before the first chunk / REPLACE is appended before the retry; (R20.6) the bidirectional builder agrees: probe on the first chunk only, memo recorded and looked up under the same key, DEL prepended for replace. Not decided: the target's resulting dataset as a value."
}

type rpEvent struct {
	kind string // exists, del, pexpire, restore, restore-replace, expand, once, memo-set, memo-clear
	site core.Site
	pos  token.Pos
}

const replayFn = "(*pkg/rdbrestore.RdbReplay).Replay"

// replayEvents extracts the target-affecting events of one path of Replay.
func replayEvents(p *core.Path) []rpEvent {
	var ev []rpEvent
	replaceAppended := false
	for _, in := range p.Instrs {
		switch x := in.(type) {
		case *ssa.Store:
			if fa, ok := x.Addr.(*ssa.FieldAddr); ok && core.FieldName(fa) == "ignoredKey" {
				if core.IsNilConst(x.Val) {
					ev = append(ev, rpEvent{kind: "memo-clear", pos: x.Pos()})
				} else {
					ev = append(ev, rpEvent{kind: "memo-set", pos: x.Pos()})
				}
			}
		case ssa.CallInstruction:
			s := core.ResolveCall(x)
			switch {
			case s.Name == "pkg/rdbrestore.restoreBigRdbEntry":
				ev = append(ev, rpEvent{"expand", s, s.Pos()})
			case s.Name == "pkg/rdbrestore.restoreOnce":
				ev = append(ev, rpEvent{"once", s, s.Pos()})
			case s.Name == "builtin.append":
				if el, ok := core.VariadicElems(s.Common().Args[1]); ok {
					for _, e := range el {
						if str, ok := core.ConstString(e); ok && strings.EqualFold(str, "REPLACE") {
							replaceAppended = true
						}
					}
				}
			case s.Method == "Do" || s.Method == "Send":
				cmd, ok := core.CmdName(s)
				if !ok {
					ev = append(ev, rpEvent{"unknown-command", s, s.Pos()})
					continue
				}
				k := cmd
				if cmd == "restore" && replaceAppended {
					k = "restore-replace"
				}
				ev = append(ev, rpEvent{k, s, s.Pos()})
			}
		}
	}
	return ev
}

func isWrite(k string) bool {
	switch k {
	case "expand", "del", "pexpire", "restore-replace", "once", "unknown-command":
		return true
	}
	return false
}

func c20(w *core.World, r *core.Report) {
	f := fn(w, r, replayFn)
	type verdict struct {
		bad string
		pos token.Pos
		n   int
	}
	v := map[string]*verdict{}
	get := func(k string) *verdict {
		if v[k] == nil {
			v[k] = &verdict{}
		}
		return v[k]
	}
	fail := func(k, msg string, pos token.Pos) {
		x := get(k)
		if x.bad == "" {
			x.bad, x.pos = msg, pos
		}
	}
	if f != nil {
		isPolicy := func(x ssa.Value) bool { return core.IsFieldLoad(core.Unwrap(x), "RdbReplay", "KeyExists") }
		isExist := isResultOf("pkg/redis/client/common.Bool", 0)
		isFirst := func(x ssa.Value) bool {
			c, ok := core.Unwrap(x).(*ssa.Call)
			return ok && strings.HasSuffix(core.ResolveCall(c).Name, "BinEntry).FirstBin")
		}
		isBusy := func(x ssa.Value) bool {
			c, ok := core.Unwrap(x).(*ssa.Call)
			if !ok || core.ResolveCall(c).Name != "strings.Contains" {
				return false
			}
			s, ok := core.ConstString(c.Call.Args[1])
			return ok && (strings.Contains(s, "BUSYKEY") || strings.Contains(s, "key name is busy"))
		}
		isMemoEq := func(x ssa.Value) bool {
			c, ok := core.Unwrap(x).(*ssa.Call)
			if !ok || core.ResolveCall(c).Name != "bytes.Equal" {
				return false
			}
			for _, a := range c.Call.Args {
				if core.IsFieldLoad(core.Unwrap(a), "RdbReplay", "ignoredKey") {
					return true
				}
			}
			return false
		}
		memoNil := func(p *core.Path) bool {
			return p.Holds(token.EQL, func(x ssa.Value) bool { return core.IsFieldLoad(core.Unwrap(x), "RdbReplay", "ignoredKey") }, core.IsNilConst)
		}
		okEnum := core.EnumPathsN(f.Blocks[0], 0, 400000, core.Unroll, func(p *core.Path) {
			ret, isRet := p.End.(*ssa.Return)
			if !isRet {
				return
			}
			ev := replayEvents(p)
			first := pathAssumed(p, isFirst, true)
			notFirst := pathAssumed(p, isFirst, false)
			exists := pathAssumed(p, isExist, true)
			busy := pathAssumed(p, isBusy, true)
			policy := ""
			for _, pol := range []string{"replace", "ignore", "error"} {
				if p.Holds(token.EQL, isPolicy, isConstStr(pol)) {
					policy = pol
				}
			}
			retNil := true
			for _, rv := range core.RetVals(ret, 0) {
				if !core.IsNilConst(p.Resolve(rv)) {
					retNil = false
				}
			}
			idx := func(kind string) int {
				for i, e := range ev {
					if e.kind == kind {
						return i
					}
				}
				return -1
			}
			// R20.1
			for i, e := range ev {
				if e.kind == "exists" || e.kind == "del" {
					get("R20.1/probe-first-chunk-only").n++
					// a value that is not split has one chunk only: that chunk is the first one
					whole := pathAssumedN(p, func(x ssa.Value) bool {
						c, ok := core.Unwrap(x).(*ssa.Call)
						return ok && c.Call.IsInvoke() && c.Call.Method.Name() == "IsSplited"
					}, false)
					if !first && !whole {
						fail("R20.1/probe-first-chunk-only", e.kind+" runs for a chunk that is not the first one of its value: a later chunk sees the key its predecessors created (replace deletes them, error aborts)", e.pos)
					}
				}
				if e.kind == "exists" {
					// error of the probe is tested on the path when anything follows
					if i+1 < len(ev) {
						call := e.site.Value()
						tested := false
						for _, in2 := range p.Instrs {
							cb, ok := in2.(*ssa.Call)
							if !ok || core.ResolveCall(cb).Name != "pkg/redis/client/common.Bool" {
								continue
							}
							uses := false
							for _, a := range cb.Call.Args {
								if e2, ok := a.(*ssa.Extract); ok && e2.Tuple == call {
									uses = true
								}
							}
							if uses {
								for _, fct := range p.Conds {
									c, ok := core.FactCmp(fct)
									if ok && (c.Op == token.EQL || c.Op == token.NEQ) && core.IsNilConst(c.Y) {
										if e2, ok := p.Resolve(c.X).(*ssa.Extract); ok && e2.Tuple == ssa.Value(cb) && e2.Index == 1 {
											tested = true
										}
									}
								}
							}
						}
						get("R20.1/probe-error-tested").n++
						if !tested {
							fail("R20.1/probe-error-tested", "the result of the existence probe is used without testing its error: a failed probe reads as 'key absent' and the policy is skipped", e.pos)
						}
					}
				}
			}
			if ie := idx("expand"); ie >= 0 && first && !busy {
				get("R20.1/probe-before-write").n++
				if ix := idx("exists"); ix < 0 || ix > ie {
					// the fallback after a rejected RESTORE payload is not preceded by a probe (RESTORE itself reported no BUSYKEY)
					if idx("restore") < 0 {
						fail("R20.1/probe-before-write", "the first chunk of an expanded value is written without probing for an existing key first", ev[ie].pos)
					}
				}
			}
			// later chunks consult the memo
			if ie := idx("expand"); ie >= 0 && notFirst {
				get("R20.3/later-chunks-consult-memo").n++
				if !(pathAssumed(p, isMemoEq, false) || memoNil(p)) {
					fail("R20.3/later-chunks-consult-memo", "a later chunk of a split value is written without consulting the 'ignored key' memo: chunks 2..n of an ignored value are merged into the existing key", ev[ie].pos)
				}
			}
			// policy outcomes once the key is known to exist
			if (exists || busy) && policy != "" {
				after := 0
				if exists {
					after = idx("exists") + 1
				} else {
					after = idx("restore") + 1
				}
				switch policy {
				case "ignore":
					get("R20.3/ignore-no-write").n++
					for _, e := range ev[after:] {
						if isWrite(e.kind) {
							fail("R20.3/ignore-no-write", "under the ignore policy "+e.kind+" is still executed after the key was found to exist: the snapshot's value is merged into the existing key", e.pos)
						}
					}
					if exists {
						get("R20.3/ignore-remembers-key").n++
						if idx("memo-set") < 0 {
							fail("R20.3/ignore-remembers-key", "the ignored key is not remembered: the remaining chunks of a split value would still be written", ret.Pos())
						}
					}
					if !retNil {
						fail("R20.3/ignore-no-write", "ignore must not fail the replay", ret.Pos())
					}
				case "error":
					get("R20.4/error-stops").n++
					if retNil {
						fail("R20.4/error-stops", "under the error policy the replay continues although the key exists", ret.Pos())
					}
					for _, e := range ev[after:] {
						if isWrite(e.kind) || e.kind == "restore" {
							fail("R20.4/error-stops", "under the error policy "+e.kind+" is executed after the key was found to exist", e.pos)
						}
					}
				case "replace":
					get("R20.5/replace-removes-old").n++
					if exists {
						id, ie := idx("del"), idx("expand")
						if retNil && (id < 0 || (ie >= 0 && id > ie)) {
							fail("R20.5/replace-removes-old", "under the replace policy the existing key is not deleted before the expanded value is written (old elements survive)", ret.Pos())
						}
					} else if retNil {
						if idx("restore-replace") < 0 && !pathHasSecondRestore(ev) {
							fail("R20.5/replace-removes-old", "under the replace policy a BUSYKEY answer is not followed by RESTORE … REPLACE", ret.Pos())
						}
					}
				}
			}
		})
		if !okEnum {
			r.Rule("R20.1", "", 0)
			r.Undecided("Replay/paths", f.Pos(), "too many paths through Replay")
		}
	}
	titles := map[string]string{
		"R20.1": "existence probe / DEL only for the first chunk, probe error tested, probe before the first expanded write",
		"R20.3": "ignore: no write after 'key exists', key remembered, later chunks consult the memo",
		"R20.4": "error: non-nil return before any write",
		"R20.5": "replace: old key deleted before the first chunk / REPLACE on retry",
	}
	floors := map[string]int{"R20.1": 3, "R20.3": 3, "R20.4": 1, "R20.5": 1}
	for _, id := range []string{"R20.1", "R20.3", "R20.4", "R20.5"} {
		r.Rule(id, titles[id], floors[id])
	}
	keys := make([]string, 0, len(v))
	for k := range v {
		keys = append(keys, k)
	}
	sort.Strings(keys)
	for _, k := range keys {
		x := v[k]
		r.Rule(k[:5], "", 0)
		if x.bad != "" {
			r.Fail("Replay/"+k[6:], x.pos, "%s", x.bad)
		} else {
			r.OK("Replay/"+k[6:], token.NoPos, "%d path instance(s)", x.n)
		}
	}

	r.Rule("R20.2", "policy switches cover exactly {replace, ignore, error}; configuration normalises to that set", 2)
	rulePolicySet(w, r)

	r.Rule("R20.6", "bidirectional builder: probe on first chunk only, memo recorded and looked up under one key, DEL prepended under replace", 3)
	ruleBisyncRdbPolicy(w, r)

	r.Rule("R20.7", "the 'ignored key' memo lives until the next key begins: it is cleared only under FirstBin", 1)
	if f != nil {
		n, bad := 0, ""
		var pos token.Pos = f.Pos()
		for _, in := range core.Instrs(f) {
			st, ok := in.(*ssa.Store)
			if !ok {
				continue
			}
			fa, ok := st.Addr.(*ssa.FieldAddr)
			if !ok || core.FieldName(fa) != "ignoredKey" {
				continue
			}
			n++
			first := false
			for _, fct := range core.FactsAt(st.Block()) {
				if c, isCall := core.Unwrap(fct.Cond).(*ssa.Call); isCall && fct.Val && strings.HasSuffix(core.ResolveCall(c).Name, "BinEntry).FirstBin") {
					first = true
				}
			}
			if !first {
				bad, pos = "the memo of the ignored key is written while a continuation chunk is handled: a value split into three or more chunks has its remaining chunks merged into the existing key", st.Pos()
			}
		}
		r.Check(bad == "" && n >= 2, "Replay/memo-lifetime", pos, "%s", bad)
	}

	r.Rule("R20.9", "a RESTORE error is classified as 'key exists' only by the published BUSYKEY texts", 2)
	ruleBusyKeyTexts(w, r)
	r.Rule("R20.10", "bidirectional RESTORE carries REPLACE exactly when the policy is replace, whatever the target version", 1)
	ruleBisyncRestoreReplace(w, r)
	r.Rule("R20.11", "all chunks of one key reach the worker that made the key-exists decision: the distributor picks the worker of a keyed entry from the key alone", 1)
	ruleChunksSameWorker(w, r)
	r.Rule("R20.16", "under replace the existing key is deleted before the native fall-back of a failed RESTORE ... REPLACE", 1)
	ruleReplaceDeletesBeforeFallback(w, r)
	r.Rule("R20.15", "a failed RESTORE falls back to native commands (which skip the key-exists probe) only for the 'Bad data format' reply", 1)
	ruleNativeFallbackOnlyForBadFormat(w, r)
	r.Rule("R10.15", "every snapshot key the filters let through reaches the policy: an intact entry is withheld only by the database, key or slot rule (shared with C10)", 2)
	ruleWithheldOnlyByFilters(w, r)
	r.Rule("R20.13", "the policy value the replay paths switch on is one of replace / ignore / error on every successful path of the configuration's fix", 1)
	rulePolicyValueNormalised(w, r)
	r.Rule("R20.12", "a chunked value is known as such from its first chunk", 1)
	ruleSplitKnownFromFirstChunk(w, r)
	r.Rule("R20.8", "bidirectional replay: a BUSYKEY reply to RESTORE is tolerated only under the ignore policy", 1)
	if g := fn(w, r, "(*syncer.RedisOutput).validateBisyncRdbExecReplies"); g != nil {
		// the loop over the EXEC replies: the one that asks whether a reply is an error reply
		var ta *ssa.TypeAssert
		for _, in := range core.Instrs(g) { // the validation may be split into phases, each a function of its own
			if t, ok := in.(*ssa.TypeAssert); ok && t.CommaOk && strings.HasSuffix(core.TypeName(t.AssertedType), "common.RedisError") && core.LoopHeadOf(t.Block()) != nil {
				ta = t
			}
		}
		if ta == nil {
			r.Undecided("validateBisyncRdbExecReplies/busykey-only-under-ignore", g.Pos(), "the loop that inspects the EXEC replies was not found")
		} else {
			head := core.LoopHeadOf(ta.Block())
			isErrReply := func(v ssa.Value) bool {
				e, ok := core.Unwrap(v).(*ssa.Extract)
				return ok && e.Index == 1 && e.Tuple == ssa.Value(ta)
			}
			isBusy := func(v ssa.Value) bool {
				c, ok := core.Unwrap(v).(*ssa.Call)
				return ok && core.ResolveCall(c).Name == "syncer.isRestoreBusyKeyError"
			}
			isPolicy := func(v ssa.Value) bool { return core.IsFieldLoad(core.Unwrap(v), "", "KeyExists") }
			n, bad := 0, ""
			var pos token.Pos = ta.Pos()
			okEnum := core.EnumPathsN(head, 0, 100000, 1, func(p *core.Path) {
				if !p.Closed || !pathAssumed(p, isErrReply, true) {
					return
				}
				// an error reply after which the loop goes on: tolerated
				n++
				if !pathAssumed(p, isBusy, true) || !p.Holds(token.EQL, isPolicy, isConstStr("ignore")) {
					bad = "an error reply of the transaction is passed over on a path that did not establish: the policy is 'ignore' and the reply is RESTORE's BUSYKEY"
				}
			})
			if !okEnum {
				r.Undecided("validateBisyncRdbExecReplies/busykey-only-under-ignore", pos, "too many paths")
			} else {
				r.Check(bad == "" && n >= 1, "validateBisyncRdbExecReplies/busykey-only-under-ignore", pos, "a RESTORE that answers BUSYKEY means the key appeared after the existence probe; swallowing that reply is the ignore policy. Under 'error' it must fail the replay (under 'replace' it cannot occur): %s (tolerating paths=%d)", bad, n)
			}
		}
	}
	r.Rule("R20.17", "the key-exists policy of every output configuration is copied from the option of that name", 1)
	rulePolicyWiredByName(w, r)
	r.Rule("R20.18", "the snapshot worker stops on the unit builder's error before it looks at 'skip'", 1)
	ruleBuilderErrorBeforeSkip(w, r)
	r.Rule("R20.19", "a snapshot worker handles an entry on its connection only after the connection was switched to the entry's database: the key-exists probe asks the entry's own database", 3)
	ruleEntryHandledInItsDatabase(w, r)
	r.Rule("R20.20", "bidirectional snapshot replay: no piece of the key-exists mechanism (probe, DEL, RESTORE form, memo, expiry) stands under a test that the empty key fails", 3)
	ruleKeylessIsNotEmptyKey(w, r)
}

func pathHasSecondRestore(ev []rpEvent) bool {
	n := 0
	for _, e := range ev {
		if e.kind == "restore" || e.kind == "restore-replace" {
			n++
		}
	}
	return n >= 2
}

// stringSwitchCases collects, for every switch in fd whose tag is a selector
// ending in field, the case strings.
func stringSwitchCases(w *core.World, pkg, recv, name, field string) [][]string {
	fd, p := w.FuncDecl(pkg, recv, name)
	if fd == nil {
		return nil
	}
	return switchCasesOn(p, fd.Body, field)
}

func rulePolicySet(w *core.World, r *core.Report) {
	// every place of the snapshot replay package that dispatches on the policy: the comparisons of one
	// loaded KeyExists value with constants form one dispatch (a switch or an if-chain, in Replay or in a
	// method split off from it)
	groups := map[ssa.Value]map[string]bool{}
	var order []ssa.Value
	for _, g := range w.FuncsIn("pkg/rdbrestore") {
		for _, in := range core.OwnInstrs(g) {
			b, isB := in.(*ssa.BinOp)
			if !isB || (b.Op != token.EQL && b.Op != token.NEQ) {
				continue
			}
			x, y := b.X, b.Y
			if _, isC := core.ConstString(x); isC {
				x, y = y, x
			}
			cs, isC := core.ConstString(y)
			if !isC || !core.IsFieldLoad(core.Unwrap(x), "RdbReplay", "KeyExists") {
				continue
			}
			k := core.Unwrap(x)
			if groups[k] == nil {
				groups[k] = map[string]bool{}
				order = append(order, k)
			}
			groups[k][cs] = true
		}
	}
	var sets [][]string
	for _, k := range order {
		var one []string
		for c := range groups[k] {
			one = append(one, c)
		}
		sort.Strings(one)
		sets = append(sets, one)
	}
	want := "error,ignore,replace"
	ok := len(sets) >= 2
	for _, s := range sets {
		if strings.Join(s, ",") != want {
			ok = false
		}
	}
	r.Check(ok, "Replay/policy-switches", token.NoPos, "both key-exists switches (expansion path and BUSYKEY path) must handle exactly replace / ignore / error, found %v", sets)
	// configuration: ReplayConfig.fix / output config normalises KeyExists
	found := false
	for _, f := range w.FuncsIn("config") {
		for _, in := range core.Instrs(f) {
			st, ok := in.(*ssa.Store)
			if !ok {
				continue
			}
			if fa, ok := st.Addr.(*ssa.FieldAddr); ok && core.FieldName(fa) == "KeyExists" {
				// a policy constant is what the field falls back to (directly, or as one of the values a
				// normalising helper returns)
				core.Walk(st.Val, func(v ssa.Value) bool {
					if s, ok := core.ConstString(v); ok && (s == "replace" || s == "ignore" || s == "error") {
						found = true
					}
					return !found
				})
			}
		}
	}
	vals := map[string]bool{}
	p := w.Pkg("config")
	if p != nil {
		for _, f := range w.FuncsIn("config") {
			for _, in := range core.Instrs(f) {
				b, ok := in.(*ssa.BinOp)
				if !ok || (b.Op != token.EQL && b.Op != token.NEQ) {
					continue
				}
				if core.IsFieldLoad(core.Unwrap(b.X), "", "KeyExists") {
					if s, ok := core.ConstString(b.Y); ok {
						vals[s] = true
					}
				}
			}
		}
	}
	r.Check(found || (vals["replace"] && vals["ignore"] && vals["error"]), "config/KeyExists-normalised", token.NoPos, "the configuration must default or validate keyExists against replace / ignore / error (compared with %v)", vals)
}

func ruleBisyncRdbPolicy(w *core.World, r *core.Report) {
	f := fn(w, r, "(*syncer.RedisOutput).buildBisyncRdbReplayUnit")
	if f == nil {
		return
	}
	isFirst := func(x ssa.Value) bool {
		c, ok := core.Unwrap(x).(*ssa.Call)
		return ok && strings.HasSuffix(core.ResolveCall(c).Name, "BinEntry).FirstBin")
	}
	// probe only on first chunk
	n := 0
	for _, s := range core.Sites(f, false) {
		if s.Method != "Do" {
			continue
		}
		if cmd, ok := core.CmdName(s); !ok || cmd != "exists" {
			continue
		}
		n++
		first := false
		for _, fct := range core.FactsAt(s.Instr.Block()) {
			if fct.Val && isFirst(fct.Cond) {
				first = true
			}
		}
		r.Check(first, "buildBisyncRdbReplayUnit/probe-first-chunk", s.Pos(), "the existence probe must run for the first chunk of a value only")
	}
	if n == 0 {
		r.Fail("buildBisyncRdbReplayUnit/probe-first-chunk", f.Pos(), "no existence probe")
	}
	// memo key: skipKey(x) and shouldSkip(y) with the same x, y; beginKey on first chunk
	var setK, getK ssa.Value
	for _, s := range core.Sites(f, false) {
		switch s.Name {
		case "(*syncer.bisyncRdbReplayState).skipKey":
			setK = s.Args()[0]
		case "(*syncer.bisyncRdbReplayState).shouldSkip":
			getK = s.Args()[0]
		}
	}
	r.Check(setK != nil && getK != nil && sameValue(setK, getK), "buildBisyncRdbReplayUnit/memo-key", f.Pos(),
		"the ignore decision must be recorded and looked up under the same key (the rewritten target key): otherwise later chunks of an ignored value are replayed")
	// DEL prepended under replace && first chunk
	del := false
	for _, in := range core.Instrs(f) {
		st, ok := in.(*ssa.Store)
		if !ok {
			continue
		}
		if s, ok := core.ConstString(st.Val); ok && s == "del" {
			rep, first := false, false
			for _, fct := range core.FactsAt(st.Block()) {
				if c, ok := core.FactCmp(fct); ok && c.Op == token.EQL && isConstStr("replace")(c.Y) {
					rep = true
				}
				if fct.Val && isFirst(fct.Cond) {
					first = true
				}
			}
			del = rep && first
		}
	}
	r.Check(del, "buildBisyncRdbReplayUnit/replace-del", f.Pos(), "under replace the expanded replay must prepend DEL for the first chunk only")
}

// ---------------------------------------------------------------- key-exists classification of a RESTORE error (R20.9, shared with C04 as R04.10)

// ruleBusyKeyTexts: a RESTORE error means "the key exists" only when it is
// Redis' BUSYKEY reply. Anything wider (a lower-cased substring, "busy" alone)
// also matches "BUSY Redis is busy running a script", LOADING-style errors
// and the like: under the ignore policy the entry is then skipped and the
// snapshot recorded as replayed.
func ruleBusyKeyTexts(w *core.World, r *core.Report) {
	published := map[string]bool{"Target key name is busy": true, "BUSYKEY Target key name already exists": true}
	n := 0
	for _, name := range []string{replayFn, "syncer.isRestoreBusyKeyError"} {
		f := fn(w, r, name)
		if f == nil {
			continue
		}
		bad := ""
		var pos token.Pos = f.Pos()
		k := 0
		for _, s := range core.Sites(f, false) {
			switch s.Name {
			case "strings.Contains", "strings.HasPrefix", "strings.EqualFold", "strings.Index":
			default:
				continue
			}
			a := s.Args()
			if len(a) != 2 {
				continue
			}
			txt, isC := core.ConstString(a[1])
			if !isC {
				// a loop over a fixed list of texts: every element must be published
				okList := false
				switch e := core.Unwrap(a[1]).(type) {
				case *ssa.UnOp:
					if ia, isIA := e.X.(*ssa.IndexAddr); isIA {
						okList = constStringsOf(w, ia.X, published)
					}
				case *ssa.Index:
					okList = constStringsOf(w, e.X, published)
				}
				if okList {
					k++
					continue
				}
				if fieldNameOfLoad(a[1]) != "" || s.Name != "strings.Contains" {
					continue // not an error-text test
				}
				bad, pos = "a RESTORE error is matched against a text that is not a constant", s.Pos()
				continue
			}
			if !strings.Contains(strings.ToLower(txt), "busy") {
				continue // some other test
			}
			k++
			// the error text itself, untransformed
			direct := false
			if c, isCall := core.Unwrap(a[0]).(*ssa.Call); isCall && c.Call.IsInvoke() && c.Call.Method.Name() == "Error" {
				direct = true
			}
			if !published[txt] || !direct || s.Name != "strings.Contains" {
				bad, pos = "a RESTORE error is taken for 'key exists' by something wider than the two published BUSYKEY texts (text \""+txt+"\", untransformed error text: "+boolStr(direct)+")", s.Pos()
			}
		}
		n += k
		r.Check(bad == "" && k >= 1, shortName(name)+"/busykey-texts", pos, "%s", bad)
	}
	if n == 0 {
		r.Fail("busykey-texts", token.NoPos, "no BUSYKEY recognition found")
	}
}

// constStringsOf: v is (a load of) a package-level array/slice of string constants, all of them allowed.
func constStringsOf(w *core.World, v ssa.Value, allowed map[string]bool) bool {
	g, ok := v.(*ssa.Global)
	if !ok {
		if ld, isLd := v.(*ssa.UnOp); isLd {
			g, ok = ld.X.(*ssa.Global)
		}
	}
	if !ok || g.Pkg == nil {
		return false
	}
	vals, _, found := astCompositeStrings(w, core.Short(g.Pkg.Pkg.Path()), g.Name(), false)
	if !found || len(vals) == 0 {
		return false
	}
	for _, s := range vals {
		if !allowed[s] {
			return false
		}
	}
	return true
}


// ---------------------------------------------------------------- R20.10 RESTORE … REPLACE in the bidirectional builder

// ruleBisyncRestoreReplace: the bidirectional path does not delete the old key
// first; under the replace policy the RESTORE it builds must carry REPLACE on
// every path (a BUSYKEY answer is tolerated only under ignore, so a missing
// REPLACE aborts the full sync and leaves the old value), and under any other
// policy it must not carry it.
func ruleBisyncRestoreReplace(w *core.World, r *core.Report) {
	f := fn(w, r, "syncer.captureBisyncRdbRestoreCommand")
	if f == nil {
		return
	}
	isPolicyTest := func(p *core.Path, fct core.Fact) (isTest, replace bool) {
		c, ok := core.FactCmp(fct)
		if !ok || (c.Op != token.EQL && c.Op != token.NEQ) {
			return false, false
		}
		x, y := p.Resolve(c.X), p.Resolve(c.Y)
		if _, isC := x.(*ssa.Const); isC {
			x, y = y, x
		}
		str, isStr := core.ConstString(y)
		if !isStr || !strings.EqualFold(str, "replace") {
			return false, false
		}
		if _, isPar := x.(*ssa.Parameter); !isPar {
			return false, false
		}
		return true, c.Op == token.EQL
	}
	bad := ""
	var pos token.Pos = f.Pos()
	n, nRep := 0, 0
	okEnum := core.EnumPathsN(f.Blocks[0], 0, 100000, core.Unroll, func(p *core.Path) {
		ret, ok := p.End.(*ssa.Return)
		if !ok || bad != "" || ret.Parent() != f || len(ret.Results) != 2 {
			return
		}
		if core.IsNilConst(p.Resolve(ret.Results[0])) {
			return // nothing built
		}
		n++
		appended := false
		for _, in := range p.Instrs {
			c, isC := in.(*ssa.Call)
			if !isC || !isBuiltin(c, "append") || len(c.Call.Args) != 2 {
				continue
			}
			if el, ok := core.VariadicElems(c.Call.Args[1]); ok {
				for _, e := range el {
					if str, ok := core.ConstString(core.Unwrap(e)); ok && strings.EqualFold(str, "REPLACE") {
						appended = true
					}
				}
			}
		}
		known, replace := false, false
		for _, fct := range p.Conds {
			if isT, rep := isPolicyTest(p, fct); isT {
				known, replace = true, rep
			}
		}
		if appended {
			nRep++
		}
		switch {
		case appended && !(known && replace):
			bad, pos = "RESTORE is given REPLACE on a path that has not established the replace policy: an existing key is overwritten under ignore/error", ret.Pos()
		case !appended && !(known && !replace):
			bad, pos = "RESTORE is built without REPLACE on a path where the policy may be replace (for instance for a target version the other modifiers are not sent to): the target answers BUSYKEY, which is tolerated only under ignore, so the full sync aborts and the old value stays", ret.Pos()
		}
	})
	if !okEnum {
		r.Undecided("captureBisyncRdbRestoreCommand/replace-iff-policy", f.Pos(), "too many paths")
		return
	}
	r.Check(bad == "" && n > 0 && nRep > 0, "captureBisyncRdbRestoreCommand/replace-iff-policy", pos, "%s (paths building a RESTORE=%d, with REPLACE=%d)", bad, n, nRep)
}

// ---------------------------------------------------------------- R20.11 all chunks of one key reach the same worker

// ruleChunksSameWorker: the key-exists decision (probe, DEL, the memo of an
// ignored key) is kept per replay worker and made on the first chunk only.
// The distributor must therefore choose the worker of an entry that has a key
// from the key alone; a chunk that is sent round-robin reaches a worker that
// knows nothing of the decision and merges it into the existing key (or races
// with the first worker's DEL). Shared with C03 (chunks of one key are
// appended in order only when one worker handles them).
func ruleChunksSameWorker(w *core.World, r *core.Report) {
	f := fn(w, r, "(*syncer.RedisOutput).sendRdb")
	if f == nil {
		return
	}
	isKeyLoad := func(v ssa.Value) bool {
		return fieldNameOfLoad(core.Unwrap(v)) == "Key"
	}
	isEntryChan := func(t types.Type) bool {
		ch, ok := t.Underlying().(*types.Chan)
		return ok && strings.HasSuffix(core.TypeName(ch.Elem()), "BinEntry")
	}
	// the distributor: the function that receives entries from a channel and picks one of several worker channels
	receivesEntries := func(g *ssa.Function) bool {
		for _, in := range core.OwnInstrs(g) {
			switch x := in.(type) {
			case *ssa.UnOp:
				if x.Op == token.ARROW && isEntryChan(x.X.Type()) {
					return true
				}
			case *ssa.Select:
				for _, st := range x.States {
					if st.Dir == types.RecvOnly && isEntryChan(st.Chan.Type()) {
						return true
					}
				}
			}
		}
		return false
	}
	n := 0
	var cands []*ssa.Function
	seenFn := map[*ssa.Function]bool{}
	for _, top := range w.FuncsIn("syncer") {
		for _, g := range core.DeepFuncs(top) {
			if !seenFn[g] {
				seenFn[g] = true
				cands = append(cands, g)
			}
		}
	}
	for _, g := range cands {
		if !receivesEntries(g) {
			continue
		}
		for _, in := range core.OwnInstrs(g) {
			ld, ok := in.(*ssa.UnOp)
			if !ok || ld.Op != token.MUL || !isEntryChan(ld.Type()) {
				continue
			}
			ia, ok := ld.X.(*ssa.IndexAddr)
			if !ok {
				continue
			}
			if _, isK := core.ConstInt(ia.Index); isK {
				continue
			}
			{
				// the choice of one of several worker channels for the entry just received
				sel := in
				n++
				head := core.LoopHeadOf(sel.Block())
				if head == nil {
					r.Undecided("sendRdb/chunks-same-worker", sel.Pos(), "the distributor's loop was not found")
					continue
				}
				bad := ""
				paths := 0
				okEnum := core.EnumPathsN(head, 0, 100000, 1, func(p *core.Path) {
					on := false
					for _, pi := range p.Instrs {
						if pi == sel {
							on = true
						}
					}
					if !on || bad != "" {
						return
					}
					paths++
					idx := p.Resolve(ia.Index)
					byKey := false
					if b, isB := core.Unwrap(idx).(*ssa.BinOp); isB && b.Op == token.REM {
						if c, isC := core.Unwrap(p.Resolve(b.X)).(*ssa.Call); isC && len(c.Call.Args) >= 1 && isKeyLoad(c.Call.Args[0]) {
							byKey = true
						}
					}
					if byKey {
						return
					}
					noKey := false
					for _, fct := range p.Conds {
						c, ok := core.FactCmp(fct)
						if !ok || !isLenZero(c) {
							continue
						}
						lenCall, _ := core.Unwrap(c.X).(*ssa.Call)
						if lenCall == nil {
							lenCall, _ = core.Unwrap(c.Y).(*ssa.Call)
						}
						if lenCall == nil || !isKeyLoad(lenCall.Call.Args[0]) {
							continue
						}
						// len(Key) <= 0, len(Key) == 0, 0 >= len(Key)
						if _, isLenX := core.Unwrap(c.X).(*ssa.Call); isLenX {
							noKey = c.Op == token.LEQ || c.Op == token.EQL || c.Op == token.LSS
						} else {
							noKey = c.Op == token.GEQ || c.Op == token.EQL || c.Op == token.GTR
						}
					}
					if !noKey {
						bad = "an entry that may carry a key is handed to a worker that is not chosen from the key: later chunks of a split value reach a worker that did not see the first chunk, so the key-exists decision (probe, DEL, ignored-key memo) made there is unknown to that worker"
					}
				})
				if !okEnum {
					r.Undecided("sendRdb/chunks-same-worker", sel.Pos(), "too many paths")
					continue
				}
				r.Check(bad == "" && paths > 0, "sendRdb/chunks-same-worker", sel.Pos(), "%s (paths to the send=%d)", bad, paths)
			}
		}
	}
	if n == 0 {
		r.Fail("sendRdb/chunks-same-worker", f.Pos(), "the distributor's send into the worker channels was not found")
	}
}

// ---------------------------------------------------------------- R20.12 a chunked value is known as such from its first chunk

// ruleSplitKnownFromFirstChunk: both replay paths decide on the first chunk how
// the whole value is replayed (RESTORE is impossible for a chunked value; the
// ignored-key memo and the DEL are set up there). IsSplited must therefore be
// true for the first chunk too: false only when nothing was handed out before
// AND nothing remains to be read.
func ruleSplitKnownFromFirstChunk(w *core.World, r *core.Report) {
	f := fn(w, r, "(*pkg/rdb.BaseParser).IsSplited")
	if f == nil {
		return
	}
	isField := func(name string) func(ssa.Value) bool {
		return func(v ssa.Value) bool { return fieldNameOfLoad(core.Unwrap(v)) == name }
	}
	bad := ""
	var pos token.Pos = f.Pos()
	nFalse, nTrue := 0, 0
	okEnum := core.EnumPathsN(f.Blocks[0], 0, 10000, core.Unroll, func(p *core.Path) {
		ret, ok := p.End.(*ssa.Return)
		if !ok || len(ret.Results) != 1 || bad != "" {
			return
		}
		val, known := p.Eval(ret.Results[0])
		if !known {
			if b, isC := core.ConstBool(p.Resolve(ret.Results[0])); isC {
				val, known = b, true
			}
		}
		if !known {
			bad, pos = "the result is not decided on a path", ret.Pos()
			return
		}
		if val {
			nTrue++
			return
		}
		nFalse++
		noHistory, noneLeft := false, false
		for _, fct := range p.Conds {
			c, ok := core.FactCmp(fct)
			if !ok {
				continue
			}
			x, y := p.Resolve(c.X), p.Resolve(c.Y)
			if c.Op == token.EQL && isField("historyEntries")(x) && isConstInt(0)(y) {
				noHistory = true
			}
			if d, isB := core.Unwrap(x).(*ssa.BinOp); isB && d.Op == token.SUB && isField("totalEntries")(d.X) && isField("readEntries")(d.Y) && isConstInt(0)(y) && (c.Op == token.LEQ || c.Op == token.EQL) {
				noneLeft = true
			}
			if (c.Op == token.LEQ || c.Op == token.EQL) && isField("totalEntries")(x) && isField("readEntries")(y) {
				noneLeft = true
			}
			if (c.Op == token.GEQ || c.Op == token.EQL) && isField("readEntries")(x) && isField("totalEntries")(y) {
				noneLeft = true
			}
		}
		if !noHistory || !noneLeft {
			bad, pos = "a chunk is reported as 'not split' on a path that did not establish both: nothing was handed out before, and nothing remains to be read — the first chunk of a split value then takes the whole-value path (RESTORE, no memo), and the later chunks are merged into the existing key", ret.Pos()
		}
	})
	if !okEnum {
		r.Undecided("BaseParser.IsSplited/first-chunk", f.Pos(), "too many paths")
		return
	}
	r.Check(bad == "" && nFalse > 0 && nTrue > 0, "BaseParser.IsSplited/first-chunk", pos, "%s (false paths=%d true paths=%d)", bad, nFalse, nTrue)
}

// ---------------------------------------------------------------- R20.13 the policy the replay paths switch on is one of the three

// rulePolicyValueNormalised: Replay and the bidirectional builder compare the
// configured policy with the exact words replace / ignore / error and have no
// default branch: any other value ("", "Error", " ignore") silently selects no
// policy at all — BUSYKEY is swallowed, no DEL is issued, chunks are merged.
// The configuration's fix must therefore leave the field holding one of the
// three words on every successful path: a constant of the set, or a value the
// path has tested for membership in the set — the same value, not a normalised
// copy of it.
func rulePolicyValueNormalised(w *core.World, r *core.Report) {
	f := fn(w, r, "(*config.ReplayConfig).fix")
	if f == nil {
		return
	}
	policies := map[string]bool{"replace": true, "ignore": true, "error": true}
	isKeyExistsAddr := func(a ssa.Value) bool {
		fa, ok := a.(*ssa.FieldAddr)
		return ok && core.FieldName(fa) == "KeyExists" && strings.HasSuffix(core.TypeName(fa.X.Type()), "ReplayConfig")
	}
	live := liveBlocks(f, func(in ssa.Instruction) bool {
		if st, ok := in.(*ssa.Store); ok && isKeyExistsAddr(st.Addr) {
			return true
		}
		ld, ok := in.(*ssa.UnOp)
		return ok && ld.Op == token.MUL && isKeyExistsAddr(ld.X)
	})
	constList := func(v ssa.Value) bool {
		// a literal []string{…} of policy words, or a package-level list/map of them
		if els, ok := core.VariadicElems(v); ok && len(els) > 0 {
			for _, e := range els {
				s, isS := core.ConstString(e)
				if !isS || !policies[s] {
					return false
				}
			}
			return true
		}
		return constStringsOf(w, v, policies)
	}
	bad := ""
	var pos token.Pos = f.Pos()
	n := 0
	seen := map[string]bool{}
	okEnum := core.EnumPathsStop(f.Blocks[0], 0, 400000, 1, func(b *ssa.BasicBlock) bool { return !live[b] }, func(p *core.Path) {
		if bad != "" {
			return
		}
		if ret, isRet := p.End.(*ssa.Return); isRet && !pathNil(p, ret.Results[len(ret.Results)-1]) {
			return // a configuration error: nothing is replayed
		}
		cur := "init"
		loadVal := map[ssa.Value]string{}
		term := func(v ssa.Value) string {
			v = core.Unwrap(p.Resolve(v))
			if t, ok := loadVal[v]; ok {
				return t
			}
			if s, ok := core.ConstString(v); ok {
				return "c:" + s
			}
			return fmt.Sprintf("v:%p", v)
		}
		member := map[string]bool{}
		ci := 0
		for _, in := range p.Instrs {
			switch x := in.(type) {
			case *ssa.UnOp:
				if x.Op == token.MUL && isKeyExistsAddr(x.X) {
					loadVal[x] = cur
				}
			case *ssa.Store:
				if isKeyExistsAddr(x.Addr) {
					cur = term(x.Val)
				}
			case *ssa.If:
				for ci < len(p.Conds) && p.Conds[ci].If != x {
					ci++
				}
				if ci >= len(p.Conds) {
					continue
				}
				fct := p.Conds[ci]
				ci++
				cond := core.Unwrap(p.Resolve(fct.Cond))
				if c, ok := cond.(*ssa.Call); ok && fct.Val {
					nm := core.ResolveCall(c).Name
					if (strings.HasSuffix(nm, "slices.Contains") || strings.Contains(nm, "slices.Contains[")) && len(c.Call.Args) == 2 && constList(c.Call.Args[0]) {
						member[term(c.Call.Args[1])] = true
					}
				}
				if e, ok := cond.(*ssa.Extract); ok && e.Index == 1 && fct.Val {
					if lk, isLk := e.Tuple.(*ssa.Lookup); isLk && lk.CommaOk && constMapKeysIn(w, lk.X, policies) {
						member[term(lk.Index)] = true
					}
				}
				if lk, ok := cond.(*ssa.Lookup); ok && !lk.CommaOk && fct.Val {
					// a set written as map[string]bool: true only for a key of the literal
					if bt, isB := lk.Type().Underlying().(*types.Basic); isB && bt.Kind() == types.Bool && constMapKeysIn(w, lk.X, policies) {
						member[term(lk.Index)] = true
					}
				}
				if c, ok := core.FactCmp(fct); ok && c.Op == token.EQL {
					if s, isS := core.ConstString(p.Resolve(c.Y)); isS && policies[s] {
						member[term(c.X)] = true
					}
					if s, isS := core.ConstString(p.Resolve(c.X)); isS && policies[s] {
						member[term(c.Y)] = true
					}
				}
			}
		}
		if len(loadVal) == 0 && cur == "init" {
			return // left the function (a configuration error) before the policy was looked at
		}
		if seen[cur] {
			return
		}
		seen[cur] = true
		n++
		if os.Getenv("GUNYU_DEBUG") != "" {
			fmt.Println("DEBUG policy path: cur=", cur, "members=", member, "end=", p.End, "conds=", len(p.Conds))
		}
		if strings.HasPrefix(cur, "c:") {
			if !policies[cur[2:]] {
				bad, pos = "the key-exists policy ends up as the constant "+strconv.Quote(cur[2:])+", which none of the replay paths' policy switches knows", p.End.Pos()
			}
			return
		}
		if !member[cur] {
			bad, pos = "the key-exists policy the replay paths will switch on was not tested against replace / ignore / error on this path (the test, if any, was applied to another value, for instance a lower-cased copy that is not stored back): a value such as \"Error\" selects no policy at all", p.End.Pos()
		}
	})
	if !okEnum {
		r.Undecided("ReplayConfig.fix/key-exists-policy", f.Pos(), "too many paths")
		return
	}
	r.Check(bad == "" && n > 0, "ReplayConfig.fix/key-exists-policy", pos, "%s (distinct final values=%d)", bad, n)
}

// constMapKeysIn: v is (a load of) a package-level map whose literal keys are all allowed strings.
func constMapKeysIn(w *core.World, v ssa.Value, allowed map[string]bool) bool {
	g, ok := core.Unwrap(v).(*ssa.Global)
	if !ok {
		if ld, isLd := core.Unwrap(v).(*ssa.UnOp); isLd {
			g, ok = ld.X.(*ssa.Global)
		}
	}
	if !ok || g.Pkg == nil {
		return false
	}
	keys, _, found := astCompositeStrings(w, core.Short(g.Pkg.Pkg.Path()), g.Name(), true)
	if !found || len(keys) == 0 {
		return false
	}
	for _, k := range keys {
		if !allowed[k] {
			return false
		}
	}
	return true
}

// ---------------------------------------------------------------- R20.15 a failed RESTORE falls back to native commands for one reason only

// ruleNativeFallbackOnlyForBadFormat: when RESTORE is answered with "Bad data
// format" (a payload version the target does not read) the entry is written with
// native commands instead. That fallback does not go through the key-exists probe
// of the native branch, so it must stay confined to that one reply: widened to
// other refusals of RESTORE (an unknown command behind a proxy, NOPERM) it writes
// an entry over an existing key without EXISTS / DEL — ignore merges, error does
// not stop, replace mixes old and new members.
func ruleNativeFallbackOnlyForBadFormat(w *core.World, r *core.Report) {
	f := fn(w, r, replayFn)
	if f == nil {
		return
	}
	isRestoreDo := func(s core.Site) bool {
		if !s.Common().IsInvoke() || s.Method != "Do" {
			return false
		}
		a := s.Common().Args
		if len(a) == 0 {
			return false
		}
		c, ok := core.ConstString(a[0])
		return ok && strings.EqualFold(c, "restore")
	}
	isBadFormat := func(v ssa.Value) bool {
		c, ok := core.Unwrap(v).(*ssa.Call)
		if !ok || core.ResolveCall(c).Name != "strings.Contains" || len(c.Call.Args) != 2 {
			return false
		}
		txt, isC := core.ConstString(c.Call.Args[1])
		return isC && txt == "Bad data format"
	}
	bad := ""
	var pos token.Pos = f.Pos()
	n := 0
	okEnum := core.EnumPathsN(f.Blocks[0], 0, 400000, 2, func(p *core.Path) {
		if bad != "" {
			return
		}
		var failedRestore ssa.Instruction
		sites := pathSites(p)
		for _, s := range sites {
			if isRestoreDo(s) {
				failedRestore = nil
				// the reply of RESTORE is judged through a helper (common.String(cli.Do(...))): the failure is
				// whatever error test follows it on the path
				failedRestore = s.Instr
			}
			if failedRestore != nil && strings.HasSuffix(s.Name, "rdbrestore.restoreBigRdbEntry") {
				n++
				okReason := false
				for _, fct := range factsBetween(p, failedRestore, s.Instr) {
					if fct.Val && isBadFormat(p.Resolve(fct.Cond)) {
						okReason = true
					}
				}
				if !okReason {
					bad, pos = "after a RESTORE attempt the entry is written with native commands on a path that did not establish the 'Bad data format' reply: the key-exists policy (EXISTS probe, DEL) is bypassed for that entry", s.Pos()
				}
			}
		}
	})
	if !okEnum {
		r.Undecided("Replay/native-fallback-only-for-bad-format", f.Pos(), "too many paths")
		return
	}
	r.Check(bad == "" && n > 0, "Replay/native-fallback-only-for-bad-format", pos, "%s (fallback paths=%d)", bad, n)
}

// ---------------------------------------------------------------- R20.16 replace removes the key before the native fall-back too

// ruleReplaceDeletesBeforeFallback: RESTORE tests for an existing key before it
// loads the payload. Under replace an existing key makes the first RESTORE fail
// with BUSYKEY, the retry carries REPLACE; if that one fails with "Bad data
// format" the entry is written with native commands, which do not replace
// anything. On every path of Replay that added REPLACE and then reaches the
// native fall-back, a DEL of the key comes first — otherwise the members of the
// old value survive next to the new ones.
func ruleReplaceDeletesBeforeFallback(w *core.World, r *core.Report) {
	f := fn(w, r, replayFn)
	if f == nil {
		return
	}
	isReplaceAppend := func(in ssa.Instruction) bool {
		c, ok := in.(*ssa.Call)
		if !ok || !isBuiltin(c, "append") || len(c.Call.Args) != 2 {
			return false
		}
		els, ok := core.VariadicElems(c.Call.Args[1])
		if !ok {
			return false
		}
		for _, e := range els {
			if s, isS := core.ConstString(core.Unwrap(e)); isS && strings.EqualFold(s, "REPLACE") {
				return true
			}
		}
		return false
	}
	bad := ""
	var pos token.Pos = f.Pos()
	n := 0
	okEnum := core.EnumPathsN(f.Blocks[0], 0, 400000, 2, func(p *core.Path) {
		if bad != "" {
			return
		}
		replaced, deleted := false, false
		for _, in := range p.Instrs {
			if isReplaceAppend(in) {
				replaced, deleted = true, false
			}
			ci, ok := in.(*ssa.Call)
			if !ok {
				continue
			}
			s := core.ResolveCall(ci)
			if s.Common().IsInvoke() && s.Method == "Do" && len(s.Common().Args) > 0 {
				if c, isC := core.ConstString(s.Common().Args[0]); isC && (strings.EqualFold(c, "del") || strings.EqualFold(c, "unlink")) {
					deleted = true
				}
			}
			if strings.HasSuffix(s.Name, "rdbrestore.restoreBigRdbEntry") && replaced {
				n++
				if !deleted {
					bad, pos = "after RESTORE ... REPLACE failed, the entry is written with native commands without the existing key having been deleted: the old value's members survive next to the snapshot's", s.Pos()
				}
			}
		}
	})
	if !okEnum {
		r.Undecided("Replay/replace-deletes-before-native-fallback", f.Pos(), "too many paths")
		return
	}
	r.Check(bad == "" && n > 0, "Replay/replace-deletes-before-native-fallback", pos, "%s (paths=%d)", bad, n)
}
