package rules

import (
	"go/token"
	"go/types"
	"strconv"

	"gunyucheck/core"

	"golang.org/x/tools/go/ssa"
)

// ---------------------------------------------------------------- R08.12 the verification switch travels through the store unweakened

// ruleSwitchUnweakened. The operator's switch enters the store as the boolean parameter of GetReader
// (R08.4 decides that it is the configured one) and is consumed where a segment or a snapshot is opened:
// the conditions that must be *true* for isCorrupted / checkHeader to run. Between the two it is carried
// by boolean parameters and fields ("carriers", found by role: seeded from both ends and closed over
// argument passing and field stores inside pkg/store). The rule: wherever a carrier is set inside the
// store — an argument in a carrier position, a store into a carrier field — the value is a carrier of
// the setting function itself, unchanged. A constant, or an expression that combines the switch with
// something else (`verify && offset == left`), turns verification off for some opens although the
// operator turned it on. And an object that carries the switch in a field has the field set before it is
// handed to anything that reads it (an open that runs before the assignment is an unverified open).
func ruleSwitchUnweakened(w *core.World, r *core.Report) {
	funcs := w.FuncsIn("pkg/store")
	inStore := map[*ssa.Function]bool{}
	for _, f := range funcs {
		inStore[f] = true
	}
	isBool := func(t types.Type) bool {
		b, ok := t.Underlying().(*types.Basic)
		return ok && b.Kind() == types.Bool
	}
	params := map[*ssa.Parameter]bool{}
	fields := map[string]bool{}
	fieldKey := func(x ssa.Value, idx int) string {
		t := x.Type()
		if p, ok := t.Underlying().(*types.Pointer); ok {
			t = p.Elem()
		}
		return types.TypeString(t, nil) + "#" + strconv.Itoa(idx)
	}
	// the carrier a value is, if it is one by shape: a boolean parameter, a load of a boolean field, or a
	// variable that holds nothing but one of those (a parameter captured by a closure lives in a cell)
	var shape func(v ssa.Value, depth int) (p *ssa.Parameter, fk string)
	shape = func(v ssa.Value, depth int) (*ssa.Parameter, string) {
		v = core.Unwrap(v)
		if !isBool(v.Type()) || depth > 4 {
			return nil, ""
		}
		switch x := v.(type) {
		case *ssa.Parameter:
			return x, ""
		case *ssa.Field:
			return nil, fieldKey(x.X, x.Field)
		case *ssa.UnOp:
			if x.Op != token.MUL {
				return nil, ""
			}
			if fa, ok := x.X.(*ssa.FieldAddr); ok {
				return nil, fieldKey(fa.X, fa.Field)
			}
			if cell := core.Cell(x.X); cell != nil {
				var p0 *ssa.Parameter
				k0 := ""
				for i, st := range core.CellStores(cell) {
					p, k := shape(st.Val, depth+1)
					if p == nil && k == "" || i > 0 && (p != p0 || k != k0) {
						return nil, ""
					}
					p0, k0 = p, k
				}
				return p0, k0
			}
		}
		return nil, ""
	}
	isCarrier := func(v ssa.Value) bool {
		p, k := shape(v, 0)
		return p != nil && params[p] || k != "" && fields[k]
	}

	// seed 1: the store's entrance
	if g := fn(w, r, "(*pkg/store.Storer).GetReader"); g != nil {
		var bp []*ssa.Parameter
		for _, p := range g.Params {
			if isBool(p.Type()) {
				bp = append(bp, p)
			}
		}
		if len(bp) != 1 {
			r.Undecided("Storer.GetReader/verification-switch", g.Pos(), "GetReader has %d boolean parameters: the verification switch cannot be told by its role", len(bp))
			return
		}
		params[bp[0]] = true
	} else {
		return
	}
	// seed 2: what must be true for a verification to run
	nCons := 0
	for _, f := range funcs {
		for _, in := range core.OwnInstrs(f) {
			c, ok := in.(*ssa.Call)
			if !ok || !core.MatchName(core.ResolveCall(c).Name, "(*pkg/store.AofRotateReader).isCorrupted", "(*pkg/store.RdbReader).checkHeader") {
				continue
			}
			for _, fct := range core.FactsAt(c.Block()) {
				cond, val := fct.Cond, fct.Val
				for {
					u, isU := cond.(*ssa.UnOp)
					if !isU || u.Op != token.NOT {
						break
					}
					cond, val = u.X, !val
				}
				if !val {
					continue
				}
				if p, k := shape(cond, 0); p != nil {
					params[p] = true
					nCons++
				} else if k != "" {
					fields[k] = true
					nCons++
				}
			}
		}
	}
	if nCons == 0 {
		r.Undecided("store/verification-switch-consumers", token.NoPos, "no boolean parameter or field is required to be true where a segment or a snapshot is verified: the carriers of the verification switch cannot be located")
		return
	}
	type site struct {
		in     ssa.Instruction
		g, h   *ssa.Function
		arg    ssa.Value
		callee *ssa.Parameter
	}
	var sites []site
	type fstore struct {
		st *ssa.Store
		g  *ssa.Function
		k  string
	}
	var stores []fstore
	for _, g := range funcs {
		for _, in := range core.OwnInstrs(g) {
			switch x := in.(type) {
			case ssa.CallInstruction:
				h := x.Common().StaticCallee()
				if h == nil || !inStore[h] || len(h.Blocks) == 0 || x.Common().IsInvoke() {
					continue
				}
				for i, a := range x.Common().Args {
					if i < len(h.Params) && isBool(h.Params[i].Type()) {
						sites = append(sites, site{in, g, h, a, h.Params[i]})
					}
				}
			case *ssa.Store:
				if fa, ok := x.Addr.(*ssa.FieldAddr); ok && isBool(x.Val.Type()) {
					stores = append(stores, fstore{x, g, fieldKey(fa.X, fa.Field)})
				}
			}
		}
	}
	for changed := true; changed; {
		changed = false
		addP := func(p *ssa.Parameter) {
			if p != nil && !params[p] && inStore[p.Parent()] {
				params[p], changed = true, true
			}
		}
		for _, s := range sites {
			if isCarrier(s.arg) {
				addP(s.callee)
			}
			if params[s.callee] {
				p, _ := shape(s.arg, 0)
				addP(p)
			}
		}
		for _, s := range stores {
			if isCarrier(s.st.Val) && !fields[s.k] {
				fields[s.k], changed = true, true
			}
			if fields[s.k] {
				p, _ := shape(s.st.Val, 0)
				addP(p)
			}
		}
	}
	name := func(f *ssa.Function) string {
		if f.Parent() != nil {
			root := f
			for root.Parent() != nil {
				root = root.Parent()
			}
			return shortName(core.FuncName(root)) + "$closure"
		}
		return shortName(core.FuncName(f))
	}
	for _, s := range sites {
		if !params[s.callee] {
			continue
		}
		r.Check(isCarrier(s.arg), name(s.g)+"/switch-handed-to-"+name(s.h), s.in.Pos(), "the verification switch that %s hands to %s is not the switch it was given itself (a constant, or an expression that can turn it off): what is opened on that way is served without its size and checksum being compared although the operator enabled verification", name(s.g), name(s.h))
	}
	for _, s := range stores {
		if !fields[s.k] {
			continue
		}
		fa := s.st.Addr.(*ssa.FieldAddr)
		r.Check(isCarrier(s.st.Val), name(s.g)+"/switch-stored-in-"+core.FieldName(fa), s.st.Pos(), "the field that carries the verification switch is assigned something other than the switch %s was given (a constant, or an expression that can turn it off): files opened through that object are served unverified although the operator enabled verification", name(s.g))
		// the object is not used by anything that reads the switch before the switch is in it
		obj := objOf(fa.X)
		if obj == nil || obj.Parent() != s.g {
			continue
		}
		bad := ""
		var pos token.Pos = s.st.Pos()
		for _, in := range core.OwnInstrs(s.g) {
			ci, ok := in.(ssa.CallInstruction)
			if !ok {
				continue
			}
			h := ci.Common().StaticCallee()
			if h == nil || !inStore[h] {
				continue
			}
			uses := false
			for _, a := range ci.Common().Args {
				if objOf(a) == obj {
					uses = true
				}
			}
			if !uses || !readsField(h, s.k, fieldKey) || core.Dominates(s.st, in) {
				continue
			}
			bad, pos = name(h), in.Pos()
		}
		r.Check(bad == "", name(s.g)+"/switch-set-before-use", pos, "%s hands the new object to %s, which reads the verification switch, before the switch has been stored in it: that open runs with verification off whatever the operator configured", name(s.g), bad)
	}
}

// readsField: h, or a function of its package it reaches, loads the field with the key.
func readsField(h *ssa.Function, key string, fieldKey func(ssa.Value, int) string) bool {
	for _, g := range reachableFuncs(h) {
		for _, b := range g.Blocks {
			for _, in := range b.Instrs {
				switch x := in.(type) {
				case *ssa.UnOp:
					if fa, ok := x.X.(*ssa.FieldAddr); ok && x.Op == token.MUL && fieldKey(fa.X, fa.Field) == key {
						return true
					}
				case *ssa.Field:
					if fieldKey(x.X, x.Field) == key {
						return true
					}
				}
			}
		}
	}
	return false
}

// objOf: the allocation a pointer value names: the allocation itself, or a load of a variable (possibly one
// shared with a closure) that is assigned exactly once, with an allocation.
func objOf(v ssa.Value) *ssa.Alloc {
	v = core.Unwrap(v)
	if a, ok := v.(*ssa.Alloc); ok {
		return a
	}
	ld, ok := v.(*ssa.UnOp)
	if !ok || ld.Op != token.MUL {
		return nil
	}
	cell := core.Cell(ld.X)
	if cell == nil {
		return nil
	}
	sts := core.CellStores(cell)
	if len(sts) != 1 {
		return nil
	}
	a, _ := core.Unwrap(sts[0].Val).(*ssa.Alloc)
	return a
}
