package rules

import (
	"fmt"
	"go/token"
	"go/types"
	"strings"

	"gunyucheck/core"

	"golang.org/x/tools/go/ssa"
)

func init() {
	All["C12"] = c12
	core.Explanations["C12"] = "Decides necessary structural conditions of 'stream decoding is lossless and its offsets equal the bytes consumed': " +
		"(R12.1) on every path of every Decoder method, each successful consuming read of the underlying reader (ReadByte, ReadBytes, io.ReadFull, Discard, …) is paired with exactly one `offset += n` whose n is the number of bytes that read consumed, and the offset is advanced nowhere else; " +
		"(R12.2) the underlying reader is touched only by the Decoder: the stream parsers hand their reader to NewDecoder and never read it themselves; (R12.3) MustDecodeOpt returns the offset field read after decoding, NewDecoder starts at 0, and parsers compute item offsets as start offset + that result of the same iteration; " +
		"(R12.4) a bulk argument is a buffer of n+2 bytes read fully, checked for CRLF at n,n+1 and returned as b[:n] on every success path; ParseArgs returns the lower-cased first element and the remaining elements. Not decided: encode∘decode identity as a value statement; the inline (non multi-bulk) command form is outside the property's quantifier."
}

const decoderType = "pkg/redis/client.Decoder"

func decoderMethods(w *core.World) []*ssa.Function {
	var out []*ssa.Function
	for _, f := range w.FuncsIn("pkg/redis/client") {
		if f.Signature.Recv() != nil && strings.HasSuffix(core.TypeName(f.Signature.Recv().Type()), decoderType) {
			out = append(out, f)
		}
	}
	return out
}

// isDecoderReader: v is d.r (a load of field r of a Decoder).
func isDecoderReader(v ssa.Value) bool {
	return core.IsFieldLoad(core.Unwrap(v), "client.Decoder", "r")
}

type readEvent struct {
	site   core.Site
	kind   string
	amount func(v ssa.Value) bool // does v denote the number of bytes consumed?
	failed bool
}

func lenOf(is func(ssa.Value) bool) func(ssa.Value) bool {
	return func(v ssa.Value) bool {
		c, ok := core.Unwrap(v).(*ssa.Call)
		if !ok {
			return false
		}
		b, ok := c.Call.Value.(*ssa.Builtin)
		return ok && b.Name() == "len" && len(c.Call.Args) == 1 && is(c.Call.Args[0])
	}
}

func c12(w *core.World, r *core.Report) {
	r.Rule("R12.1", "every successful consuming read of the stream is paired with one offset += bytes consumed, on every path of every Decoder method; the offset moves nowhere else", 4)
	methods := decoderMethods(w)
	if len(methods) == 0 {
		r.Unresolved(decoderType, "no Decoder methods found")
	}
	for _, f := range methods {
		r.Analysed(core.FuncName(f))
		ruleReadOffsetPairing(w, r, f)
	}

	r.Rule("R12.2", "the underlying reader is read only by the Decoder", 3)
	ruleSoleReader(w, r)

	r.Rule("R12.3", "offset plumbing: NewDecoder starts at 0, MustDecodeOpt returns the field after decoding, parsers add it to the start offset", 4)
	ruleOffsetPlumbing(w, r)

	r.Rule("R12.4", "bulk argument framing and ParseArgs slicing", 2)
	ruleBulkFraming(w, r)

	r.Rule("R12.9", "the reply reader turns bytes into a string without a copy only for a buffer it allocated for that value, never for a view of the read buffer", 1)
	ruleNoBufferAlias(w, r)
	r.Rule("R12.8", "arguments queued in a transaction batcher are slices of their own: no buffer is reused across the commands of a unit", 2)
	ruleQueuedArgsNotShared(w, r)
	r.Rule("R12.7", "the encoder's pre-formatted integer table is filled over its whole length and read with the same offset", 1)
	ruleItosTable(w, r)

	r.Rule("R12.6", "encode side: the three sibling encoders frame a bulk argument as '$' ≺ decimal length of the same bytes (at least one digit) ≺ CRLF ≺ bytes ≺ CRLF, a command as '*' ≺ argument count ≺ arguments", 8)
	ruleEncoders(w, r)

	r.Rule("R12.5", "the start offset the decoder offsets are added to is the position the cache reader was opened at (shared with R07.6)", 3)
	ruleReplayStartOffset(w, r)
	r.Rule("R12.10", "an array is read to its announced length: the element loop is bounded by the header's count itself", 1)
	ruleArrayReadsAnnouncedCount(w, r)
	r.Rule("R12.11", "no bulk length the protocol allows is refused: a path that rejects a bulk string by its announced length puts the length outside 0 … 512 MiB (proto-max-bulk-len)", 1)
	ruleBulkLengthBound(w, r)
	r.Rule("R12.12", "every decoder that is handed out counts from zero: a fresh allocation, or a recycled object whose byte count is reset before it is used (or before it is put back into its pool)", 2)
	ruleDecoderStartsAtZero(w, r)
}

func ruleReadOffsetPairing(w *core.World, r *core.Report, f *ssa.Function) {
	name := core.FuncName(f)
	short := name[strings.LastIndex(name, ".")+1:]
	if len(f.Blocks) == 0 {
		return
	}
	// does the function touch the reader or the offset at all?
	touches := false
	for _, in := range core.Instrs(f) {
		if st, ok := in.(*ssa.Store); ok {
			if fa, ok := st.Addr.(*ssa.FieldAddr); ok && core.FieldName(fa) == "offset" {
				touches = true
			}
		}
	}
	for _, s := range core.Sites(f, false) {
		for _, a := range s.Common().Args {
			if isDecoderReader(a) {
				touches = true
			}
		}
	}
	if !touches {
		return
	}
	bad := ""
	var badPos token.Pos
	paths := 0
	okEnum := core.EnumPathsN(f.Blocks[0], 0, 100000, core.Unroll, func(p *core.Path) {
		if _, isRet := p.End.(*ssa.Return); !isRet || bad != "" {
			return
		}
		paths++
		var reads []readEvent
		type addEvent struct {
			st   *ssa.Store
			amt  ssa.Value
			used bool
		}
		var adds []*addEvent
		for _, in := range p.Instrs {
			switch x := in.(type) {
			case *ssa.Store:
				fa, ok := x.Addr.(*ssa.FieldAddr)
				if !ok || core.FieldName(fa) != "offset" || !strings.HasSuffix(core.TypeName(fa.X.Type()), decoderType) {
					continue
				}
				b, ok := x.Val.(*ssa.BinOp)
				if !ok || b.Op != token.ADD || !core.IsFieldLoad(b.X, "client.Decoder", "offset") {
					bad, badPos = "the decoder offset is assigned something other than offset + n", x.Pos()
					return
				}
				adds = append(adds, &addEvent{st: x, amt: b.Y})
			case ssa.CallInstruction:
				s := core.ResolveCall(x)
				args := s.Common().Args
				usesReader := false
				for _, a := range args {
					if isDecoderReader(a) {
						usesReader = true
					}
				}
				if !usesReader {
					continue
				}
				ev := readEvent{site: s}
				switch s.Name {
				case "(*bufio.Reader).ReadByte":
					ev.kind = "ReadByte"
					ev.amount = isConstInt(1)
				case "(*bufio.Reader).ReadBytes", "(*bufio.Reader).ReadSlice", "(*bufio.Reader).ReadString":
					ev.kind = s.Method
					call := s.Value()
					ev.amount = lenOf(func(v ssa.Value) bool {
						e, ok := core.Unwrap(v).(*ssa.Extract)
						return ok && e.Index == 0 && e.Tuple == call
					})
				case "io.ReadFull":
					ev.kind = "ReadFull"
					buf := args[1]
					ev.amount = lenOf(func(v ssa.Value) bool { return v == buf })
				case "(*bufio.Reader).Discard":
					ev.kind = "Discard"
					n := args[1]
					call := s.Value()
					ev.amount = func(v ssa.Value) bool {
						v = core.Unwrap(v)
						if k, ok := core.ConstInt(n); ok {
							k2, ok2 := core.ConstInt(v)
							return ok2 && k == k2
						}
						e, ok := v.(*ssa.Extract)
						return (ok && e.Index == 0 && e.Tuple == call) || v == core.Unwrap(n)
					}
				case "(*bufio.Reader).UnreadByte":
					continue // inline-command fallback, outside the property's quantifier (reported once below)
				case "(*bufio.Reader).Peek", "(*bufio.Reader).Buffered", "(*bufio.Reader).Size":
					continue
				default:
					bad, badPos = "the stream reader is consumed through "+s.Name+", which the offset accounting does not know", s.Pos()
					return
				}
				ev.failed = failedOn(p, s.Value())
				reads = append(reads, ev)
			}
		}
		for _, rd := range reads {
			if rd.failed {
				return // the stream is abandoned on a read error
			}
		}
		for _, rd := range reads {
			matched := false
			for _, a := range adds {
				if !a.used && rd.amount(a.amt) {
					a.used, matched = true, true
					break
				}
			}
			if !matched {
				bad, badPos = rd.kind+" consumes bytes on a path that does not add their number to the offset: every later command offset is short by that amount", rd.site.Pos()
				return
			}
		}
		for _, a := range adds {
			if !a.used {
				bad, badPos = "the offset is advanced by an amount that no read on this path consumed", a.st.Pos()
				return
			}
		}
	})
	cons := "Decoder." + short + "/read-offset"
	if !okEnum {
		r.Undecided(cons, f.Pos(), "too many paths")
		return
	}
	if bad != "" {
		r.Fail(cons, badPos, "%s", bad)
		return
	}
	r.OK(cons, f.Pos(), "%d return path(s)", paths)
	for _, s := range core.SitesNamed(f, false, "(*bufio.Reader).UnreadByte") {
		r.Excluded("Decoder."+short+"/UnreadByte", s.Pos(), "inline (non multi-bulk) command fallback: outside the property's quantifier")
	}
}

func ruleSoleReader(w *core.World, r *core.Report) {
	// field Decoder.r is accessed only by Decoder methods and constructors
	bad := map[string]token.Pos{}
	for _, f := range w.Funcs() {
		for _, in := range core.Instrs(f) {
			fa, ok := in.(*ssa.FieldAddr)
			if !ok || core.FieldName(fa) != "r" || !strings.HasSuffix(core.TypeName(fa.X.Type()), decoderType) {
				continue
			}
			n := core.FuncName(f)
			isMethod := f.Signature.Recv() != nil && strings.HasSuffix(core.TypeName(f.Signature.Recv().Type()), decoderType)
			if !isMethod && n != "pkg/redis/client.NewDecoder" && n != "pkg/redis/client.Decode" {
				bad[n] = fa.Pos()
			}
		}
	}
	if len(bad) == 0 {
		r.OK("Decoder.r/owners", token.NoPos, "")
	}
	for n, pos := range bad {
		r.Fail("Decoder.r/owner/"+n, pos, "the decoder's reader is accessed outside the Decoder: bytes consumed there are not counted")
	}
	// the parsers hand their reader to NewDecoder and do nothing else with it
	for _, name := range []string{"(*syncer.RedisOutput).parseAofCommand", "(*syncer.RedisOutput).parseAofReplayUnits"} {
		f := fn(w, r, name)
		if f == nil {
			continue
		}
		rd := paramOf(f, "*bufio.Reader", "reader")
		uses, toDecoder := 0, 0
		for _, g := range core.DeepFuncs(f) {
			for _, s := range core.Sites(g, false) {
				for _, a := range s.Common().Args {
					if rd != nil && a.Type() == rd.Type() && isParam(rd)(a) {
						uses++
						if s.Name == "pkg/redis/client.NewDecoder" {
							toDecoder++
						}
					}
				}
			}
		}
		r.Check(rd != nil && uses == 1 && toDecoder == 1, shortName(name)+"/reader-use", f.Pos(), "the parser must pass its reader to NewDecoder exactly once and use it nowhere else (uses=%d, NewDecoder=%d)", uses, toDecoder)
	}
}

func ruleOffsetPlumbing(w *core.World, r *core.Report) {
	if f := fn(w, r, "pkg/redis/client.NewDecoder"); f != nil {
		ok := false
		for _, in := range core.Instrs(f) {
			st, isSt := in.(*ssa.Store)
			if !isSt {
				continue
			}
			if fa, isFa := st.Addr.(*ssa.FieldAddr); isFa && core.FieldName(fa) == "offset" {
				ok = isConstInt(0)(st.Val)
			}
		}
		// a composite literal without the field also starts at zero
		hasStore := false
		for _, in := range core.Instrs(f) {
			if st, isSt := in.(*ssa.Store); isSt {
				if fa, isFa := st.Addr.(*ssa.FieldAddr); isFa && core.FieldName(fa) == "offset" {
					hasStore = true
				}
			}
		}
		r.Check(ok || !hasStore, "NewDecoder/offset-zero", f.Pos(), "a new decoder must start counting at 0")
	}
	if f := fn(w, r, "pkg/redis/client.MustDecodeOpt"); f != nil {
		var dec ssa.Instruction
		for _, s := range core.SitesNamed(f, false, "(*pkg/redis/client.Decoder).decodeResp") {
			dec = s.Instr
		}
		ok := false
		for _, in := range core.Instrs(f) {
			ret, isRet := in.(*ssa.Return)
			if !isRet || len(ret.Results) != 3 || !core.IsNilConst(core.RetVal(ret, 2)) {
				continue
			}
			ld, isLd := core.RetVal(ret, 1).(*ssa.UnOp)
			if isLd && core.IsFieldLoad(ld, "client.Decoder", "offset") && dec != nil && core.Dominates(dec, ld) {
				ok = true
			} else {
				ok = false
				break
			}
		}
		r.Check(ok, "MustDecodeOpt/returns-offset", f.Pos(), "the success return must carry the decoder's offset read after the command was decoded")
	}
	checkItemOffsets(w, r, "(*syncer.RedisOutput).parseAofCommand")
	// the bisync parser: endOffset := startOffset + incrOffset, used for every command/unit of the iteration
	if f := fn(w, r, "(*syncer.RedisOutput).parseAofReplayUnits"); f != nil {
		start := paramOf(f, "int64", "startOffset")
		n := 0
		for _, in := range core.Instrs(f) {
			b, ok := in.(*ssa.BinOp)
			if !ok || b.Op != token.ADD {
				continue
			}
			if isStartPlusDecoded(b, start) {
				n++
			}
		}
		// every EndOffset handed to makeCmd / buildBisyncReplayUnitWithMode is that sum or the previous one
		bad := ""
		var pos token.Pos
		for _, g := range core.DeepFuncs(f) {
			for _, s := range core.Sites(g, false) {
				if !strings.HasSuffix(s.Name, "buildBisyncReplayUnitWithMode") {
					continue
				}
				a := s.Common().Args
				if len(a) < 3 {
					continue
				}
				// the value itself, or (when the builder is called from a local closure) what every caller of
				// the closure passes in that position
				okEnd := true
				for _, end := range argValues(a[2], f) {
					one := false
					core.Walk(end, func(v ssa.Value) bool {
						if isStartPlusDecoded(v, start) {
							one = true
						}
						return !one
					})
					okEnd = okEnd && one
				}
				if !okEnd {
					bad, pos = "a replay unit's end offset does not derive from startOffset + decoder offset", s.Pos()
				}
			}
		}
		r.Check(n >= 1 && bad == "", "parseAofReplayUnits/end-offset", pos, "%s (sums=%d)", bad, n)
	}
}

func ruleBulkFraming(w *core.World, r *core.Report) {
	if f := fn(w, r, "(*pkg/redis/client.Decoder).decodeBulkBytes"); f != nil {
		// decided on paths: "n" is whatever resolves, on the path, to the length the header announced (the result of
		// decodeInt) — read here, or in a helper the function obtains the length from (see r7_n3.go)
		isLen := isResultOf("(*pkg/redis/client.Decoder).decodeInt", 0)
		bad := ""
		var badPos token.Pos = f.Pos()
		succ := 0
		core.EnumPaths(f.Blocks[0], 0, 10000, func(p *core.Path) {
			ret, ok := p.End.(*ssa.Return)
			if !ok || len(ret.Results) != 2 || !pathNil(p, ret.Results[1]) || bad != "" {
				return
			}
			isN := onPath(p, isLen)
			v := p.Resolve(ret.Results[0])
			if core.IsNilConst(v) {
				if !p.Holds(token.EQL, isN, isConstInt(-1)) {
					bad, badPos = "a nil argument is returned on a path where the length is not -1", ret.Pos()
				}
				return
			}
			succ++
			sl, ok := v.(*ssa.Slice)
			var buf *ssa.MakeSlice
			if ok {
				if ms, isMs := p.Resolve(sl.X).(*ssa.MakeSlice); isMs {
					if b, isB := core.Unwrap(ms.Len).(*ssa.BinOp); isB && b.Op == token.ADD && isN(b.X) && isConstInt(2)(b.Y) {
						buf = ms
					}
				}
			}
			if buf == nil {
				bad, badPos = "a successful return is not a slice of a buffer of n+2 bytes allocated for the bulk (n the announced length): argument bytes are dropped, added or replaced", ret.Pos()
				return
			}
			if sl.Low != nil || !isN(sl.High) {
				bad, badPos = "a successful return is not buffer[:n]: argument bytes are dropped, added or replaced", ret.Pos()
				return
			}
			full, cr, lf := false, false, false
			for _, s := range pathSites(p) {
				if s.Name == "io.ReadFull" && len(s.Common().Args) == 2 && p.Resolve(s.Common().Args[1]) == ssa.Value(buf) {
					full = true
				}
			}
			for _, fct := range p.Conds {
				c, ok := core.FactCmp(fct)
				if !ok || c.Op != token.EQL {
					continue
				}
				ld, ok := core.Unwrap(c.X).(*ssa.UnOp)
				if !ok {
					continue
				}
				ia, ok := ld.X.(*ssa.IndexAddr)
				if !ok || p.Resolve(ia.X) != ssa.Value(buf) {
					continue
				}
				if isN(ia.Index) && isConstInt('\r')(c.Y) {
					cr = true
				}
				if b, ok := core.Unwrap(ia.Index).(*ssa.BinOp); ok && b.Op == token.ADD && isN(b.X) && isConstInt(1)(b.Y) && isConstInt('\n')(c.Y) {
					lf = true
				}
			}
			if !full || !cr || !lf {
				bad, badPos = "the argument is returned without reading n+2 bytes fully and checking CR LF at n, n+1", ret.Pos()
			}
		})
		r.Check(bad == "" && succ > 0, "Decoder.decodeBulkBytes/framing", badPos, "%s", bad)
	}
	if f := fn(w, r, "pkg/redis/client.ParseArgs"); f != nil {
		// decided on paths (the conversion loop and the split into name and arguments may be phases of their own):
		// every return with a nil error hands out list[1:] of the list that was allocated for the elements
		bad, succ := "", 0
		var badPos token.Pos = f.Pos()
		okEnum := core.EnumPaths(f.Blocks[0], 0, 20000, func(p *core.Path) {
			ret, ok := p.End.(*ssa.Return)
			if !ok || len(ret.Results) != 3 || bad != "" || !pathNil(p, ret.Results[2]) {
				return
			}
			succ++
			if sl, isSl := p.Resolve(ret.Results[1]).(*ssa.Slice); isSl && isConstInt(1)(sl.Low) && sl.High == nil && sl.Max == nil {
				if _, isMk := p.Resolve(sl.X).(*ssa.MakeSlice); isMk {
					return
				}
				// the same list grown by append from an empty make: one element on every back edge of the loop (r7_n2.go)
				if grownOnePerIteration(sl.X) || grownOnePerIteration(core.Unwrap(sl.X)) {
					return
				}
			}
			bad, badPos = "a return without error does not carry list[1:] of the list built from the elements", ret.Pos()
		})
		if !okEnum {
			r.Undecided("ParseArgs/args", f.Pos(), "too many paths")
		} else {
			r.Check(bad == "" && succ > 0, "ParseArgs/args", badPos, "the success return must carry every element after the command name (bs[1:]): %s (returns without error: %d)", bad, succ)
		}
	}
}

// ---------------------------------------------------------------- R12.6 encode side: bulk framing of the three sibling encoders

type encStep struct {
	what string
	is   func(core.Site) bool
}

// orderedSteps: each step is matched by exactly one call of f and each
// dominates the next.
func orderedSteps(f *ssa.Function, steps []encStep) string {
	var prev ssa.Instruction
	for _, st := range steps {
		var found []core.Site
		for _, s := range core.Sites(f, false) {
			if _, isDefer := s.Instr.(*ssa.Defer); isDefer {
				continue
			}
			if st.is(s) {
				found = append(found, s)
			}
		}
		if len(found) != 1 {
			return fmt.Sprintf("%s: expected exactly one, found %d", st.what, len(found))
		}
		if prev != nil && !core.Dominates(prev, found[0].Instr) {
			return st.what + " does not follow the previous step on every path"
		}
		prev = found[0].Instr
	}
	return ""
}

func isLenOfVal(v ssa.Value, x ssa.Value) bool {
	v = core.Unwrap(v)
	if cv, ok := v.(*ssa.Convert); ok {
		v = core.Unwrap(cv.X)
	}
	c, ok := v.(*ssa.Call)
	if !ok {
		return false
	}
	b, ok := c.Call.Value.(*ssa.Builtin)
	return ok && b.Name() == "len" && len(c.Call.Args) == 1 && core.Unwrap(c.Call.Args[0]) == x
}

func isCRLFWrite(s core.Site) bool {
	switch s.Name {
	case "(*bufio.Writer).WriteString":
		str, ok := core.ConstString(s.Args()[0])
		return ok && str == "\r\n"
	case "(*bufio.Writer).Write":
		if ld, ok := core.Unwrap(s.Args()[0]).(*ssa.UnOp); ok && ld.Op == token.MUL {
			if g, ok := ld.X.(*ssa.Global); ok && g.Name() == "crlfBytes" {
				return true
			}
		}
	case "(*pkg/redis/client/proto.Writer).crlf":
		return true
	}
	// a helper of the package that writes CRLF and nothing else
	if h := s.Callee; h != nil && len(h.Blocks) > 0 && core.Transparent != nil && core.Transparent(h) {
		n := 0
		for _, hs := range core.Sites(h, false) {
			if hs.Instr.Parent() != h {
				continue
			}
			if strings.HasPrefix(hs.Name, "(*bufio.Writer).Write") {
				if !isCRLFWrite(hs) {
					return false
				}
				n++
			}
		}
		return n == 1
	}
	return false
}

// forwardedArg: s calls target directly (the argument at idx), or a wrapper of the package that hands
// one of its parameters (converted or not) on to target at idx — then the argument the wrapper got.
func forwardedArg(s core.Site, target string, idx int) ssa.Value {
	if s.Name == target {
		if a := s.Args(); idx < len(a) {
			return a[idx]
		}
		return nil
	}
	h := s.Callee
	if h == nil || len(h.Blocks) == 0 || core.Transparent == nil || !core.Transparent(h) {
		return nil
	}
	var inner []core.Site
	for _, hs := range core.Sites(h, false) {
		if hs.Name == target && hs.Instr.Parent() == h {
			inner = append(inner, hs)
		}
	}
	if len(inner) != 1 || idx >= len(inner[0].Args()) {
		return nil
	}
	v := core.Unwrap(inner[0].Args()[idx])
	if cv, ok := v.(*ssa.Convert); ok {
		v = core.Unwrap(cv.X)
	}
	args := s.Common().Args
	for k, hp := range h.Params {
		if ssa.Value(hp) == v && k < len(args) {
			return args[k]
		}
	}
	return nil
}

func ruleEncoders(w *core.World, r *core.Report) {
	constIs := func(v ssa.Value, k int64) bool { c, ok := core.ConstInt(core.Unwrap(v)); return ok && c == k }
	// --- proto.Writer (standalone targets)
	if f := fn(w, r, "(*pkg/redis/client/proto.Writer).bytes"); f != nil && len(f.Params) == 2 {
		b := ssa.Value(f.Params[1])
		msg := orderedSteps(f, []encStep{
			{"'$' type byte", func(s core.Site) bool { return s.Name == "(*bufio.Writer).WriteByte" && constIs(s.Args()[0], '$') }},
			{"length of the same bytes", func(s core.Site) bool {
				return s.Name == "(*pkg/redis/client/proto.Writer).writeLen" && isLenOfVal(s.Args()[0], b)
			}},
			{"the bytes", func(s core.Site) bool { return s.Name == "(*bufio.Writer).Write" && core.Unwrap(s.Args()[0]) == b }},
			{"CRLF", isCRLFWrite},
		})
		r.Check(msg == "", "proto.Writer.bytes/framing", f.Pos(), "a bulk argument must be written as '$' ≺ decimal len(b) ≺ CRLF ≺ b ≺ CRLF: %s", msg)
	}
	if f := fn(w, r, "(*pkg/redis/client/proto.Writer).writeLen"); f != nil && len(f.Params) == 2 {
		n := ssa.Value(f.Params[1])
		okNum, okCRLF, okWrite := false, false, false
		for _, s := range core.Sites(f, false) {
			switch s.Name {
			case "strconv.AppendUint", "strconv.AppendInt":
				a := s.Args()
				if len(a) == 3 && constIs(a[2], 10) {
					v := core.Unwrap(a[1])
					if cv, ok := v.(*ssa.Convert); ok {
						v = core.Unwrap(cv.X)
					}
					okNum = v == n
				}
			case "(*bufio.Writer).Write":
				okWrite = true
			}
		}
		// append(buf, '\r', '\n')
		for _, in := range core.Instrs(f) {
			if c, ok := in.(*ssa.Call); ok {
				if bi, ok := c.Call.Value.(*ssa.Builtin); ok && bi.Name() == "append" && len(c.Call.Args) == 2 {
					if el, ok := core.VariadicElems(c.Call.Args[1]); ok && len(el) == 2 && constIs(el[0], '\r') && constIs(el[1], '\n') {
						okCRLF = true
					}
				}
			}
		}
		r.Check(okNum && okCRLF && okWrite, "proto.Writer.writeLen/decimal", f.Pos(), "a length is written as the decimal digits of n (base 10: %v) followed by CRLF (%v) and flushed to the writer (%v)", okNum, okCRLF, okWrite)
	}
	if f := fn(w, r, "(*pkg/redis/client/proto.Writer).WriteArgs"); f != nil && len(f.Params) == 2 {
		args := ssa.Value(f.Params[1])
		msg := orderedSteps(f, []encStep{
			{"'*' type byte", func(s core.Site) bool { return s.Name == "(*bufio.Writer).WriteByte" && constIs(s.Args()[0], '*') }},
			{"argument count", func(s core.Site) bool {
				return s.Name == "(*pkg/redis/client/proto.Writer).writeLen" && isLenOfVal(s.Args()[0], args)
			}},
			{"each argument", func(s core.Site) bool { return s.Name == "(*pkg/redis/client/proto.Writer).WriteArg" }},
		})
		r.Check(msg == "", "proto.Writer.WriteArgs/framing", f.Pos(), "a command must be written as '*' ≺ decimal len(args) ≺ CRLF ≺ every argument: %s", msg)
	}
	// --- cluster connection (cluster targets)
	for _, nm := range []string{"writeBytes", "writeString"} {
		f := fn(w, r, "(*pkg/redis/client/cluster.redisConn)."+nm)
		if f == nil || len(f.Params) != 2 {
			continue
		}
		p := ssa.Value(f.Params[1])
		msg := orderedSteps(f, []encStep{
			{"'$' + length of the same bytes", func(s core.Site) bool {
				return s.Name == "(*pkg/redis/client/cluster.redisConn).writeLen" && constIs(s.Args()[0], '$') && isLenOfVal(s.Args()[1], p)
			}},
			{"the bytes", func(s core.Site) bool {
				return (s.Name == "(*bufio.Writer).Write" || s.Name == "(*bufio.Writer).WriteString") && core.Unwrap(s.Args()[0]) == p
			}},
			{"CRLF", isCRLFWrite},
		})
		r.Check(msg == "", "cluster.redisConn."+nm+"/framing", f.Pos(), "a bulk argument must be written as '$' ≺ decimal len ≺ CRLF ≺ bytes ≺ CRLF: %s", msg)
	}
	if f := fn(w, r, "(*pkg/redis/client/cluster.redisConn).writeLen"); f != nil && len(f.Params) == 3 {
		// hand-rolled decimal conversion: at least one digit is produced (0 is "0"), digits are n%10 + '0', n /= 10
		var wr core.Site
		for _, s := range core.SitesNamed(f, false, "(*bufio.Writer).Write") {
			wr = s
		}
		okDigit, okDiv, okPrefix, okCRLF := false, false, false, 0
		for _, in := range core.Instrs(f) {
			st, ok := in.(*ssa.Store)
			if !ok {
				continue
			}
			if _, isIdx := st.Addr.(*ssa.IndexAddr); !isIdx {
				continue
			}
			v := core.Unwrap(st.Val)
			if cv, ok := v.(*ssa.Convert); ok {
				v = core.Unwrap(cv.X)
			}
			if b, ok := v.(*ssa.BinOp); ok && b.Op == token.ADD {
				x, y := core.Unwrap(b.X), core.Unwrap(b.Y)
				if constIs(y, '0') {
					x, y = y, x
				}
				if rm, ok := y.(*ssa.BinOp); ok && constIs(x, '0') && rm.Op == token.REM && constIs(rm.Y, 10) {
					// the digit store must execute at least once before the write: it dominates it
					okDigit = okDigit || (wr.Instr != nil && core.Dominates(st, wr.Instr))
				}
			}
			if v == ssa.Value(f.Params[1]) {
				okPrefix = okPrefix || (wr.Instr != nil && core.Dominates(st, wr.Instr))
			}
			if constIs(v, '\r') || constIs(v, '\n') {
				okCRLF++
			}
		}
		for _, in := range core.Instrs(f) {
			if b, ok := in.(*ssa.BinOp); ok && b.Op == token.QUO && constIs(b.Y, 10) {
				okDiv = true
			}
		}
		r.Check(okDigit && okDiv && okPrefix && okCRLF == 2, "cluster.redisConn.writeLen/decimal", f.Pos(), "a length is written as prefix ≺ decimal digits ≺ CRLF; the digit step ('0' + n%%10) must run at least once before the write so that 0 is written as \"0\" (digit dominates write: %v, n/=10: %v, prefix stored: %v, CR and LF stored: %d)", okDigit, okDiv, okPrefix, okCRLF)
	}
	if f := fn(w, r, "(*pkg/redis/client/cluster.redisConn).writeCommand"); f != nil && len(f.Params) == 3 {
		args := ssa.Value(f.Params[2])
		okCount, okCmd := false, false
		var cnt, cm ssa.Instruction
		for _, s := range core.Sites(f, false) {
			switch s.Name {
			case "(*pkg/redis/client/cluster.redisConn).writeLen":
				if constIs(s.Args()[0], '*') {
					if b, ok := core.Unwrap(s.Args()[1]).(*ssa.BinOp); ok && b.Op == token.ADD && isLenOfVal(b.X, args) && constIs(b.Y, 1) {
						okCount, cnt = true, s.Instr
					}
				}
			case "(*pkg/redis/client/cluster.redisConn).writeString":
				if core.Unwrap(s.Args()[0]) == ssa.Value(f.Params[1]) {
					okCmd, cm = true, s.Instr
				}
			}
		}
		r.Check(okCount && okCmd && core.Dominates(cnt, cm), "cluster.redisConn.writeCommand/framing", f.Pos(), "a command must be written as '*' ≺ decimal len(args)+1 ≺ the command name ≺ the arguments (count: %v, name: %v)", okCount, okCmd)
	}
	// --- client.encoder (re-encoding of decoded values)
	if f := fn(w, r, "(*pkg/redis/client.encoder).encodeBulkBytes"); f != nil && len(f.Params) == 2 {
		b := ssa.Value(f.Params[1])
		msg := orderedSteps(f, []encStep{
			{"length of the same bytes", func(s core.Site) bool {
				a := forwardedArg(s, "(*pkg/redis/client.encoder).encodeInt", 0)
				return a != nil && isLenOfVal(a, b)
			}},
			{"the bytes", func(s core.Site) bool { return s.Name == "(*bufio.Writer).Write" && core.Unwrap(s.Args()[0]) == b }},
			{"CRLF", isCRLFWrite},
		})
		r.Check(msg == "", "client.encoder.encodeBulkBytes/framing", f.Pos(), "a bulk value must be written as decimal len(b) ≺ CRLF ≺ b ≺ CRLF: %s", msg)
	}
}

// ---------------------------------------------------------------- R12.7 the pre-formatted integer table of the encoder

// ruleItosTable: client.encoder writes lengths and counts through itos, which
// looks small integers up in a table filled once at start-up. The table must be
// filled over its whole length with entry k = decimal(k - off), and itos must
// read entry i + off under 0 <= i + off < len(table): a fill loop that stops
// early leaves "" entries, and a length in that window is written as "$\r\n".
func ruleItosTable(w *core.World, r *core.Report) {
	f := fn(w, r, "pkg/redis/client.itos")
	if f == nil {
		return
	}
	// the table: the global slice indexed in itos
	var tab *ssa.Global
	var readOff int64
	okRead := false
	for _, in := range core.OwnInstrs(f) {
		ia, ok := in.(*ssa.IndexAddr)
		if !ok {
			continue
		}
		ld, ok := ia.X.(*ssa.UnOp)
		if !ok {
			continue
		}
		g, ok := ld.X.(*ssa.Global)
		if !ok {
			continue
		}
		tab = g
		// index = param + K
		idx := core.Unwrap(ia.Index)
		if b, isB := idx.(*ssa.BinOp); isB && len(f.Params) == 1 && core.Unwrap(b.X) == ssa.Value(f.Params[0]) {
			if k, isK := core.ConstInt(b.Y); isK {
				switch b.Op {
				case token.ADD:
					readOff, okRead = k, true
				case token.SUB:
					readOff, okRead = -k, true
				}
			}
		}
		// guarded by 0 <= idx < len(table)
		lower, upper := false, false
		for _, fct := range core.FactsAt(ia.Block()) {
			c, ok := core.FactCmp(fct)
			if !ok || core.Unwrap(c.X) != idx {
				continue
			}
			if c.Op == token.GEQ && isConstInt(0)(c.Y) {
				lower = true
			}
			if c.Op == token.LSS {
				if call, isC := core.Unwrap(c.Y).(*ssa.Call); isC && isBuiltin(call, "len") {
					upper = true
				}
			}
		}
		okRead = okRead && lower && upper
	}
	if tab == nil {
		r.OK("client.itos/table", f.Pos(), "no table: integers are formatted directly")
		return
	}
	// the fill: in the package initialiser (or wherever the table is stored to)
	okFill, why := false, "no fill loop found"
	for _, g := range w.FuncsIn("pkg/redis/client") {
		for _, in := range core.OwnInstrs(g) {
			st, ok := in.(*ssa.Store)
			if !ok {
				continue
			}
			ia, ok := st.Addr.(*ssa.IndexAddr)
			if !ok {
				continue
			}
			ld, ok := ia.X.(*ssa.UnOp)
			if !ok || ld.X != ssa.Value(tab) {
				continue
			}
			from, bound, okR := indexRange(ia.Index)
			if !okR || from != 0 {
				why = "the fill does not run from index 0 upwards"
				continue
			}
			whole := false
			if call, isC := core.Unwrap(bound).(*ssa.Call); isC && isBuiltin(call, "len") {
				if l2, isL := call.Call.Args[0].(*ssa.UnOp); isL && l2.X == ssa.Value(tab) {
					whole = true
				}
			}
			if k, isK := core.ConstInt(bound); isK {
				// a constant bound: it must be the length the table was made with
				for _, i2 := range core.OwnInstrs(g) {
					if mk, isMk := i2.(*ssa.MakeSlice); isMk {
						if l, isL := core.ConstInt(mk.Len); isL && l == k {
							for _, ref := range *mk.Referrers() {
								if s2, isS := ref.(*ssa.Store); isS && s2.Addr == ssa.Value(tab) {
									whole = true
								}
							}
						}
					}
				}
			}
			if !whole {
				why = "the fill loop does not cover the whole table"
				continue
			}
			// entry k = decimal(k + A) with A = -readOff
			val := core.Unwrap(st.Val)
			if c, isC := val.(*ssa.Call); isC && (core.ResolveCall(c).Name == "strconv.Itoa" || core.ResolveCall(c).Name == "strconv.FormatInt") {
				arg := core.Unwrap(c.Call.Args[0])
				var a int64
				okA := false
				if b, isB := arg.(*ssa.BinOp); isB && core.Unwrap(b.X) == core.Unwrap(ia.Index) {
					if k, isK := core.ConstInt(b.Y); isK {
						switch b.Op {
						case token.ADD:
							a, okA = k, true
						case token.SUB:
							a, okA = -k, true
						}
					}
				} else if arg == core.Unwrap(ia.Index) {
					a, okA = 0, true
				}
				if okA && okRead && a == -readOff {
					okFill = true
				} else {
					why = "entry k does not hold decimal(k - offset) for the offset itos reads with"
				}
			} else {
				why = "an entry is not a decimal rendering of its index"
			}
		}
	}
	r.Check(okFill && okRead, "client.itos/table", f.Pos(), "the pre-formatted integer table and its lookup disagree (%s; lookup guarded and offset recognised: %v): a length or count that hits an unfilled or shifted entry is written wrongly, with no error", why, okRead)
}

// ---------------------------------------------------------------- R12.8 queued arguments are not overwritten before they are encoded

// ruleQueuedArgsNotShared: the transaction batchers keep the argument slice they
// are given and encode it only when the batch is dispatched. Inside a loop that
// queues several commands, the slice handed to Put must be one of its own per
// command: a buffer carried round the loop (buf = fill(buf[:0], …); Put(cmd,
// buf...)) makes every queued command of the unit share one backing array, and
// all of them are sent with the arguments of the last.
func ruleQueuedArgsNotShared(w *core.World, r *core.Report) {
	n := 0
	seen := map[*ssa.Function]bool{}
	for _, top := range w.FuncsIn("syncer") {
		for _, g := range core.DeepFuncs(top) {
			if seen[g] {
				continue
			}
			seen[g] = true
			for _, in := range core.OwnInstrs(g) {
				c, ok := in.(*ssa.Call)
				if !ok || !c.Call.IsInvoke() || c.Call.Method.Name() != "Put" || !strings.HasSuffix(core.TypeName(c.Call.Value.Type()), "CmdBatcher") {
					continue
				}
				head := core.LoopHeadOf(c.Block())
				if head == nil || len(c.Call.Args) == 0 {
					continue
				}
				n++
				last := c.Call.Args[len(c.Call.Args)-1]
				var carried *ssa.Phi
				visited := map[ssa.Value]bool{}
				var look func(v ssa.Value, depth int)
				look = func(v ssa.Value, depth int) {
					core.Walk(v, func(x ssa.Value) bool {
						if visited[x] {
							return false
						}
						visited[x] = true
						if ph, isPhi := x.(*ssa.Phi); isPhi && ph.Parent() == g {
							// a carried slice of the argument type (a list of commands the loop walks over is not a buffer)
							if types.Identical(ph.Type(), last.Type()) && core.LoopHeadOf(ph.Block()) == ph.Block() && (ph.Block() == head || ph.Block().Dominates(c.Block())) {
								carried = ph
							}
						}
						// a slice-typed argument of a call may come back as (part of) its result
						if call, isCall := x.(*ssa.Call); isCall && depth < 4 {
							for _, a := range call.Call.Args {
								if _, isSl := a.Type().Underlying().(*types.Slice); isSl {
									look(a, depth+1)
								}
							}
						}
						return carried == nil
					})
				}
				look(last, 0)
				r.Check(carried == nil, shortName(core.FuncName(outermost(g)))+"/queued-args-fresh", c.Pos(), "the argument slice queued with Put is built on a buffer carried round the loop: the batcher keeps the slice until Dispatch, so every command queued from this loop is sent with the last command's arguments")
			}
		}
	}
	if n == 0 {
		r.Fail("queued-args-fresh", token.NoPos, "no command is queued in a loop (two sites on the pinned tree)")
	}
}

// ---------------------------------------------------------------- R12.9 decoded strings do not alias the read buffer

// ruleNoBufferAlias: the reply reader converts value bytes to a string without
// copying (util.BytesToString). That is sound only for a buffer the reader
// allocated for that value. Applied to a view of bufio's internal buffer (Peek,
// ReadSlice, the reader's own readLine/ReadLine) the string changes under its
// holder as soon as the next fill overwrites the buffer — decoded arguments then
// depend on how the underlying reads were fragmented.
func ruleNoBufferAlias(w *core.World, r *core.Report) {
	n := 0
	for _, f := range w.FuncsIn("pkg/redis/client/proto") {
		for _, s := range core.SitesNamed(f, false, "pkg/util.BytesToString") {
			if s.Instr.Parent() != f || len(s.Args()) != 1 {
				continue
			}
			n++
			view := ""
			own := false
			core.Walk(s.Args()[0], func(x ssa.Value) bool {
				switch y := x.(type) {
				case *ssa.MakeSlice:
					own = true
				case *ssa.Call:
					nm := core.ResolveCall(y).Name
					if nm == "(*bufio.Reader).Peek" || nm == "(*bufio.Reader).ReadSlice" || nm == "(*bufio.Reader).ReadLine" ||
						strings.HasSuffix(nm, "proto.Reader).readLine") || strings.HasSuffix(nm, "proto.Reader).ReadLine") || strings.HasSuffix(nm, "proto.Reader).Peek") {
						view = nm
					}
				}
				return true
			})
			if _, isPar := core.Unwrap(s.Args()[0]).(*ssa.Parameter); isPar && view == "" {
				continue // the caller's bytes: judged where they are produced
			}
			r.Check(view == "" && own, shortName(core.FuncName(f))+"/string-of-own-buffer", s.Pos(), "bytes are turned into a string without a copy although they are (part of) a view of the read buffer (%s): the next fill of the buffer rewrites the decoded value", view)
		}
	}
	if n == 0 {
		r.OK("proto/string-of-own-buffer", token.NoPos, "no zero-copy conversion in the reply reader")
	}
}
