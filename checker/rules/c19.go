package rules

import (
	"fmt"
	"os"
	"go/constant"
	"go/token"
	"go/types"
	"strings"

	"gunyucheck/core"

	"golang.org/x/tools/go/ssa"
)

func init() {
	All["C19"] = c19
	core.Explanations["C19"] = "Decides necessary structural conditions of 'cluster replay reaches each key's slot owner and keeps per-key order': " +
		"(R19.1) a reply is stored only after it passed classification (handleReply / HandleReply / the transaction redirect test) on its success edge; (R19.2) the classifier covers every reply code, and on every path MOVED/ASK yields ErrMove/ErrAsk or the retry's result, never the raw reply with a nil error; " +
		"(R19.3) the sender's retry is bounded by a constant and never swallows: on every path it returns nil only when the last attempt succeeded; (R19.4) per-node command lists are append-only, sent and received forward, and results are reassembled through the index in enqueue order; " +
		"(R19.5) a transaction is re-dispatched only after a MOVED/ASK redirect was resolved (any other error is returned, so an applied transaction is never sent twice), a bounded number of times, with its commands untouched; (R19.6) in transactional non-bidirectional cluster mode the client's own redirect handling is switched off; " +
		"(R19.7) redirect errors escalate to 'topology changed', cross-slot to 'break', anything else is returned unchanged (non-nil preserved). Not decided: which node owns a slot at run time, per-key order under migrations (runtime behaviour)."
}

func c19(w *core.World, r *core.Report) {
	r.Rule("R19.1", "replies are stored only after classification succeeded", 2)
	ruleRepliesClassified(w, r)
	r.Rule("R19.2", "classifier exhaustive; MOVED/ASK never answered with (reply, nil)", 2)
	ruleHandleReply(w, r)
	r.Rule("R19.3", "sender retry bounded and never swallows (all paths)", 2)
	ruleSenderRetry(w, r)
	r.Rule("R19.12", "transactional mode on a cluster target: a batch answered with MOVED, ASK or CROSSSLOT is never sent again within the run", 1)
	ruleNoResendAfterRedirect(w, r)
	r.Rule("R19.16", "a redirect answered to one pipelined request is not handed to the requests behind it on the connection", 1)
	ruleRedirectStaysWithItsRequest(w, r)
	r.Rule("R19.20", "a failed send or receive of one pipelined request ends every request in flight on that connection and gives the connection up", 2)
	ruleFailedRequestEndsInFlight(w, r)
	r.Rule("R19.15", "after an ASK redirect the answer that is judged and returned is the re-sent command's own, not ASKING's", 1)
	ruleAskReplyIsTheCommands(w, r)
	r.Rule("R19.14", "a node has one node batch in a plain batch: a new one is opened only after every open one was compared with the node", 1)
	ruleOneBatchPerNode(w, r)
	r.Rule("R19.13", "a node's request queue is filled in dispatch order: the submitting goroutine does the send itself", 1)
	ruleNodeQueueOrder(w, r)
	r.Rule("R19.4", "per-node order: append-only lists, forward send/receive, index reassembly", 4)
	rulePerNodeOrder(w, r)
	r.Rule("R19.5", "transaction re-dispatched only after a resolved redirect, bounded, commands untouched", 3)
	ruleTxnRedirect(w, r)
	r.Rule("R19.6", "transactional cluster mode switches client-side redirect handling off", 1)
	ruleRedirectOff(w, r)
	r.Rule("R19.7", "escalation mapping", 1)
	ruleEscalation(w, r)
	r.Rule("R19.8", "the sender's retry finds the failed batch still queued (queue reset only after a successful send, see R01.2)", 4)
	if c := newSenderCtx(w, r); c != nil {
		ruleQueueDiscipline(w, r, c)
	}
	r.Rule("R19.9", "a transport failure is never turned into a reply: every return on the failure edge of a call in the cluster client carries an error", 1)
	ruleNoErrorAsReply(w, r, false)
	r.Rule("R19.10", "a command that cannot be queued poisons the batch: Put records every failure it returns, Exec/Dispatch return the recorded error before sending", 6)
	ruleBatchPoisoned(w, r)
	r.Rule("R19.11", "Exec returns only after every per-node worker has finished", 1)
	ruleExecWaitsForAll(w, r)
	r.Rule("R19.18", "a refused MOVED or ASK in transactional replay becomes 'typology changed'", 2)
	ruleDirectErrorEscalates(w, r)
	r.Rule("R19.17", "the pipelined receiver closes the replay with the escalated error", 1)
	ruleEscalatedErrorClosesReplay(w, r)
	r.Rule("R19.21", "on a cluster target the checkpoint never shares a batch with the commands it covers: it is sent alone, after an attempt without it succeeded (synchronous sender)", 2)
	ruleCheckpointAloneOnCluster(w, r)
	r.Rule("R19.19", "plain cluster batches: the route of a command follows the unsettled commands of its slot (known finding W32)", 2)
	ruleRouteFollowsUnsettledSlot(w, r)
}

func ruleRepliesClassified(w *core.World, r *core.Report) {
	// doBatch: cmds[i].reply stored from handleReply on its success edge
	if f := fn(w, r, "(*pkg/redis/client/cluster.Batch).doBatch"); f != nil {
		n := 0
		for _, in := range core.Instrs(f) {
			st, ok := in.(*ssa.Store)
			if !ok {
				continue
			}
			fa, ok := st.Addr.(*ssa.FieldAddr)
			if !ok || core.FieldName(fa) != "reply" {
				continue
			}
			n++
			okC := false
			for _, s := range core.SitesNamed(f, false, "(*pkg/redis/client/cluster.Cluster).handleReply") {
				all := true
				for _, l := range phiLeaves(st.Val) {
					if l != extractOf(s.Value(), 0) {
						all = false
					}
				}
				if all && core.OnSuccessOf(st.Block(), s.Value()) {
					okC = true
				}
			}
			r.Check(okC, "Batch.doBatch/reply-classified", st.Pos(), "a reply is kept without having passed handleReply successfully: a MOVED/ASK answer would be taken for the command's result and the command lost")
		}
		if n == 0 {
			r.Fail("Batch.doBatch/reply-classified", f.Pos(), "no reply store found")
		}
	}
	// receiveOnce: append(replies, reply) only after the redirect test and HandleReply success
	if f := fn(w, r, "(*pkg/redis/client/cluster.txnBatcher).receiveOnce"); f != nil {
		n := 0
		for _, in := range core.Instrs(f) {
			c, ok := in.(*ssa.Call)
			if !ok {
				continue
			}
			b, ok := c.Call.Value.(*ssa.Builtin)
			if !ok || b.Name() != "append" || !strings.HasSuffix(c.Type().String(), "[]interface{}") {
				continue
			}
			n++
			okH, okR := false, false
			for _, s := range core.SitesNamed(f, false, "pkg/redis/client/common.HandleReply") {
				if core.Dominates(s.Instr, c) && core.OnSuccessOf(c.Block(), s.Value()) {
					okH = true
				}
			}
			for _, fct := range core.FactsAt(c.Block()) {
				if !fct.Val && isResultOf("pkg/redis/client/cluster.txnRedirectError", 1)(fct.Cond) {
					okR = true
				}
			}
			r.Check(okH && okR, "txnBatcher.receiveOnce/reply-classified", c.Pos(), "a transaction reply is kept without the redirect test (found=%v) and a successful HandleReply (found=%v)", okR, okH)
		}
		if n == 0 {
			r.Fail("txnBatcher.receiveOnce/reply-classified", f.Pos(), "no reply collection found")
		}
	}
}

func ruleHandleReply(w *core.World, r *core.Report) {
	f := fn(w, r, "(*pkg/redis/client/cluster.Cluster).handleReply")
	if f == nil {
		return
	}
	// all Kresp* constants
	var codes []string
	vals := map[string]int64{}
	if p := w.Pkg("pkg/redis/client/common"); p != nil {
		for _, n := range p.Types.Scope().Names() {
			if strings.HasPrefix(n, "Kresp") {
				if c, ok := p.Types.Scope().Lookup(n).(*types.Const); ok {
					v, _ := constant.Int64Val(c.Val())
					vals[n] = v
					codes = append(codes, n)
				}
			}
		}
	}
	isResp := isResultOf("pkg/redis/client/common.CheckReply", -1)
	reply := ssa.Value(f.Params[2])
	var uncovered []string
	bad := ""
	var badPos token.Pos
	for _, code := range codes {
		n := 0
		core.EnumPaths(f.Blocks[0], 0, 10000, func(p *core.Path) {
			if !p.Holds(token.EQL, isResp, isConstInt(vals[code])) {
				return
			}
			n++
			ret, ok := p.End.(*ssa.Return)
			if !ok {
				return
			}
			if code == "KrespMove" || code == "KrespAsk" {
				if core.Unwrap(p.Resolve(ret.Results[0])) == reply && pathNil(p, ret.Results[1]) {
					bad, badPos = code+" is answered with the raw reply and a nil error: the redirected command is silently lost", ret.Pos()
				}
				// a nil error only with the retry's own result
				if pathNil(p, ret.Results[1]) {
					okRetry := false
					for _, s := range pathSites(p) {
						if (s.Method == "handleMove" || s.Method == "handleAsk") && !failedOn(p, s.Value()) && core.Unwrap(p.Resolve(ret.Results[0])) == extractOf(s.Value(), 0) {
							okRetry = true
						}
					}
					if !okRetry {
						bad, badPos = code+" returns success without the result of a successful retry at the indicated node", ret.Pos()
					}
				}
			}
		})
		if n == 0 {
			uncovered = append(uncovered, code)
		}
	}
	// codes without a case must not be answered silently: the fall-through has to panic (and be reported through the recover frames)
	silentDefault := false
	panics := false
	core.EnumPaths(f.Blocks[0], 0, 10000, func(p *core.Path) {
		matched := false
		for _, code := range codes {
			if p.Holds(token.EQL, isResp, isConstInt(vals[code])) {
				matched = true
			}
		}
		if matched {
			return
		}
		switch p.End.(type) {
		case *ssa.Return:
			silentDefault = true
		case *ssa.Panic:
			panics = true
		}
	})
	r.Check(!silentDefault && (len(uncovered) == 0 || panics) && len(codes) >= 4, "Cluster.handleReply/exhaustive", f.Pos(), "reply codes without a case %v must not be answered silently (silent default=%v, panics=%v)", uncovered, silentDefault, panics)
	r.Check(bad == "", "Cluster.handleReply/redirects", badPos, "%s", bad)
}

func ruleSenderRetry(w *core.World, r *core.Report) {
	c := newSenderCtx(w, r)
	if c == nil {
		return
	}
	send := c.send
	isOnce := func(v ssa.Value) bool {
		call, ok := core.Unwrap(v).(*ssa.Call)
		return ok && core.ResolveCall(call).Callee == c.once
	}
	bad := ""
	var badPos token.Pos
	n := 0
	okEnum := core.EnumPathsN(send.Blocks[0], 0, 100000, 3, func(p *core.Path) {
		ret, ok := p.End.(*ssa.Return)
		if !ok || bad != "" {
			return
		}
		n++
		// the last attempt on this path
		var last ssa.Value
		for _, s := range pathSites(p) {
			if s.Callee == c.once {
				last = s.Value()
			}
		}
		if last == nil {
			bad, badPos = "the sender returns without attempting to send", ret.Pos()
			return
		}
		rv := p.Resolve(ret.Results[0])
		lastFailed := false
		for _, fct := range p.Conds {
			cm, ok := core.FactCmp(fct)
			// the outcome of the last attempt is what the most recent test of the attempt's error says
			// (an earlier iteration's failure followed by a successful retry is not a failure)
			if ok && core.IsNilConst(cm.Y) && p.Resolve(cm.X) == last && (cm.Op == token.NEQ || cm.Op == token.EQL) {
				lastFailed = cm.Op == token.NEQ
			}
		}
		if lastFailed {
			if core.IsNilConst(rv) {
				bad, badPos = "the sender returns nil although its last attempt failed: the batch is neither retried nor reported", ret.Pos()
			}
			if !isOnce(rv) && !isResultOf("syncer.handleDirectError", -1)(rv) && !core.IsNilConst(rv) {
				bad, badPos = "the sender returns something other than the attempt's error or its escalation", ret.Pos()
			}
		}
	})
	if !okEnum {
		r.Undecided("sendFunc/never-swallows", send.Pos(), "too many paths")
	} else {
		r.Check(bad == "" && n > 0, "sendFunc/never-swallows", badPos, "%s", bad)
	}
	// bounded: every back edge of the retry loop is under `retries < constant`
	head := core.LoopHeadOf(core.SitesNamed(send, false, "iface:pkg/sync.WaitCloser.Sleep")[0].Instr.Block())
	okB := head != nil
	if head != nil {
		for _, pr := range head.Preds {
			if !head.Dominates(pr) {
				continue
			}
			bounded := false
			for _, fct := range core.FactsAt(pr) {
				cm, ok := core.FactCmp(fct)
				if ok && cm.Op == token.LSS {
					if _, isK := core.ConstInt(cm.Y); isK {
						bounded = true
					}
				}
			}
			if !bounded {
				okB = false
			}
		}
	}
	r.Check(okB, "sendFunc/bounded-retry", send.Pos(), "every retry of the sender must be guarded by a comparison of the retry counter with a constant")
}

func rulePerNodeOrder(w *core.World, r *core.Report) {
	for _, typ := range []string{"Batch", "batch2"} {
		put := fn(w, r, "(*pkg/redis/client/cluster."+typ+").Put")
		if put == nil {
			continue
		}
		// every store to a cmds field is append(load same field, one element); every store to index appends
		okApp := true
		n := 0
		var pos token.Pos = put.Pos()
		for _, in := range core.Instrs(put) {
			st, ok := in.(*ssa.Store)
			if !ok {
				continue
			}
			fa, ok := st.Addr.(*ssa.FieldAddr)
			if !ok {
				continue
			}
			name := core.FieldName(fa)
			if name != "cmds" && name != "index" {
				continue
			}
			if _, isLit := fa.X.(*ssa.Alloc); isLit {
				continue // a fresh nodeBatch literal
			}
			n++
			c, ok := st.Val.(*ssa.Call)
			good := false
			if ok {
				if b, isB := c.Call.Value.(*ssa.Builtin); isB && b.Name() == "append" {
					if ld, ok := c.Call.Args[0].(*ssa.UnOp); ok {
						if fa2, ok := ld.X.(*ssa.FieldAddr); ok && core.FieldName(fa2) == name {
							good = true
						}
					}
				}
			}
			if !good {
				okApp = false
				pos = st.Pos()
			}
		}
		r.Check(okApp && n >= 3, typ+".Put/append-only", pos, "per-node command lists and the reassembly index must only grow at the tail (stores=%d)", n)
	}
	// Exec: results taken through the index, forward, first remaining element of the node's list
	if f := fn(w, r, "(*pkg/redis/client/cluster.Batch).Exec"); f != nil {
		ok := false
		for _, in := range core.Instrs(f) {
			ia, isIA := in.(*ssa.IndexAddr)
			if !isIA || !forwardRangeIndex(ia.Index) {
				continue
			}
			if core.IsFieldLoad(ia.X, "Batch", "index") {
				ok = true
			}
		}
		r.Check(ok, "Batch.Exec/index-reassembly", f.Pos(), "results must be reassembled by walking the enqueue index forward")
	}
	// doBatch: forward range for send and receive, reply stored at the same index
	if f := fn(w, r, "(*pkg/redis/client/cluster.Batch).doBatch"); f != nil {
		fwd := 0
		isCmds := func(v ssa.Value) bool {
			// the node's command list, or a helper's parameter that was handed it
			for _, a := range argValues(v, f) {
				if core.IsFieldLoad(core.Unwrap(a), "nodeBatch", "cmds") {
					return true
				}
			}
			return false
		}
		for _, g := range core.DeepFuncs(f) {
			for _, in := range core.Instrs(g) {
				if ia, ok := in.(*ssa.IndexAddr); ok && isCmds(ia.X) {
					idx := ia.Index
					if ld, isLd := idx.(*ssa.UnOp); isLd {
						// captured loop variable
						if cell := core.Cell(ld.X); cell != nil {
							for _, st := range core.CellStores(cell) {
								idx = st.Val
							}
						}
					}
					if forwardRangeIndex(idx) {
						fwd++
					}
				}
			}
		}
		r.Check(fwd >= 2, "Batch.doBatch/forward", f.Pos(), "commands of a node must be sent and their replies read in list order (forward indexed accesses=%d)", fwd)
	}
}

func ruleTxnRedirect(w *core.World, r *core.Report) {
	f := fn(w, r, "(*pkg/redis/client/cluster.txnBatcher).Receive")
	if f == nil {
		return
	}
	var wait core.Site
	for _, s := range core.Sites(f, false) {
		if s.Method == "Wait" {
			wait = s
		}
	}
	if wait.Instr == nil {
		r.Unresolved("txnBatcher.Receive/wait", "wait for the transaction's replies not found")
		return
	}
	head := core.LoopHeadOf(wait.Instr.Block())
	if head == nil {
		r.Undecided("txnBatcher.Receive/loop", wait.Pos(), "retry loop not found")
		return
	}
	bad := ""
	var badPos token.Pos
	n := 0
	core.EnumPaths(head, 0, 100000, func(p *core.Path) {
		if !p.Closed {
			return
		}
		n++
		// an iteration that loops back: it must have resolved a redirect
		okRedirect := false
		for _, s := range pathSites(p) {
			if s.Name == "(*pkg/redis/client/cluster.txnBatcher).handleRedirect" {
				// returned nil on this path
				if p.Holds(token.EQL, func(v ssa.Value) bool { return v == s.Value() }, core.IsNilConst) {
					okRedirect = true
				}
			}
		}
		if !okRedirect {
			bad, badPos = "the transaction is dispatched again on a path that did not resolve a MOVED/ASK redirect: after a lost connection the node may already have executed it, so its commands run twice and the caller sees success", lastDecisionPos(p)
		}
	})
	r.Check(bad == "" && n > 0, "txnBatcher.Receive/redispatch-only-after-redirect", badPos, "%s (looping paths=%d)", bad, n)
	// bounded by a constant
	okB := false
	if iff, ok := head.Instrs[len(head.Instrs)-1].(*ssa.If); ok {
		if c, ok := core.AsCmp(iff.Cond, true); ok && (c.Op == token.LEQ || c.Op == token.LSS) {
			if _, isK := core.ConstInt(c.Y); isK {
				okB = true
			}
		}
	}
	r.Check(okB, "txnBatcher.Receive/bounded", f.Pos(), "redirect retries must be bounded by a constant")
	// commands untouched by the receive / redirect path
	touched := ""
	for _, name := range []string{"Receive", "handleRedirect", "receiveOnce", "sendOnce", "Dispatch", "dispatchToNode"} {
		g := w.Func("(*pkg/redis/client/cluster.txnBatcher)." + name)
		if g == nil {
			continue
		}
		for _, h := range core.DeepFuncs(g) {
			for _, in := range core.Instrs(h) {
				if st, ok := in.(*ssa.Store); ok {
					if fa, ok := st.Addr.(*ssa.FieldAddr); ok && (core.FieldName(fa) == "cmds" || core.FieldName(fa) == "cmdArgs") && strings.HasSuffix(core.TypeName(fa.X.Type()), "txnBatcher") {
						touched = name
					}
				}
			}
		}
	}
	r.Check(touched == "", "txnBatcher/commands-untouched-by-retry", f.Pos(), "%s modifies the transaction's command list: a redirected transaction would be replayed incompletely", touched)
}

func ruleRedirectOff(w *core.World, r *core.Report) {
	f := fn(w, r, "syncer.NewRedisOutput")
	if f == nil {
		return
	}
	move, ask := false, false
	for _, in := range core.Instrs(f) {
		st, ok := in.(*ssa.Store)
		if !ok {
			continue
		}
		fa, ok := st.Addr.(*ssa.FieldAddr)
		if !ok {
			continue
		}
		b, isB := core.ConstBool(st.Val)
		if !isB || b {
			continue
		}
		// under CanTransaction && IsCluster && !bisyncEnabled
		tx, cl, nb := false, false, false
		for _, fct := range core.FactsAt(st.Block()) {
			v := core.Unwrap(fct.Cond)
			if fct.Val && core.IsFieldLoad(v, "", "CanTransaction") {
				tx = true
			}
			if c, ok := v.(*ssa.Call); ok {
				n := core.ResolveCall(c).Name
				if fct.Val && strings.HasSuffix(n, "RedisConfig).IsCluster") {
					cl = true
				}
				if !fct.Val && strings.HasSuffix(n, "RedisOutput).bisyncEnabled") {
					nb = true
				}
			}
		}
		if tx && cl && nb {
			switch core.FieldName(fa) {
			case "HandleMoveErr":
				move = true
			case "HandleAskErr":
				ask = true
			}
		}
	}
	r.Check(move && ask, "NewRedisOutput/redirect-handling-off", f.Pos(), "in transactional cluster mode (not bidirectional) the client must not follow MOVED/ASK on its own: a command re-sent at another node outside the batch's MULTI/EXEC runs twice or out of order (move=%v ask=%v)", move, ask)
}

func ruleEscalation(w *core.World, r *core.Report) {
	f := fn(w, r, "syncer.handleDirectError")
	if f == nil {
		return
	}
	errp := ssa.Value(f.Params[0])
	isErrIs := func(global string) func(ssa.Value) bool {
		return func(v ssa.Value) bool {
			c, ok := core.Unwrap(v).(*ssa.Call)
			if !ok || core.ResolveCall(c).Name != "errors.Is" {
				return false
			}
			if ld, ok := c.Call.Args[1].(*ssa.UnOp); ok {
				if g, ok := ld.X.(*ssa.Global); ok && g.Name() == global {
					return true
				}
			}
			return false
		}
	}
	joinedWith := func(v ssa.Value, global string) bool {
		c, ok := core.Unwrap(v).(*ssa.Call)
		if !ok || core.ResolveCall(c).Name != "errors.Join" {
			return false
		}
		el, ok := core.VariadicElems(c.Call.Args[0])
		if !ok {
			return false
		}
		hasG, hasE := false, false
		for _, e := range el {
			if ld, ok := e.(*ssa.UnOp); ok {
				if g, ok := ld.X.(*ssa.Global); ok && g.Name() == global {
					hasG = true
				}
			}
			if e == errp {
				hasE = true
			}
		}
		return hasG && hasE
	}
	bad := ""
	n := 0
	core.EnumPaths(f.Blocks[0], 0, 1000, func(p *core.Path) {
		ret, ok := p.End.(*ssa.Return)
		if !ok {
			return
		}
		n++
		rv := p.Resolve(ret.Results[0])
		redirect := pathAssumed(p, isErrIs("ErrMove"), true) || pathAssumed(p, isErrIs("ErrAsk"), true)
		cross := pathAssumed(p, isErrIs("ErrCrossSlots"), true)
		switch {
		case redirect:
			if !joinedWith(rv, "ErrRedisTypologyChanged") {
				bad = "a redirect error must escalate to 'topology changed' (joined with the original error)"
			}
		case cross:
			if !joinedWith(rv, "ErrBreak") {
				bad = "a cross-slot error must escalate to 'break' (joined with the original error)"
			}
		default:
			if rv != errp {
				bad = "any other error must be returned unchanged"
			}
		}
	})
	r.Check(bad == "" && n >= 3, "handleDirectError/mapping", f.Pos(), "%s", bad)
}

// phiLeaves resolves a value through phis (and boxing) to the set of values it can be.
func phiLeaves(v ssa.Value) []ssa.Value {
	var out []ssa.Value
	seen := map[ssa.Value]bool{}
	var rec func(v ssa.Value)
	rec = func(v ssa.Value) {
		v = core.Unwrap(v)
		if seen[v] {
			return
		}
		seen[v] = true
		if ph, ok := v.(*ssa.Phi); ok {
			for _, e := range ph.Edges {
				rec(e)
			}
			return
		}
		out = append(out, v)
	}
	rec(v)
	return out
}

// ---------------------------------------------------------------- R19.9 a transport failure is never turned into a reply

// ruleNoErrorAsReply: in the cluster client, a return reached on the failure
// edge of a call (err != nil) must carry a non-nil error. Returning
// (something, nil) there hands the caller a "reply" for a command that was
// never executed; the replay records the command as applied.
func ruleNoErrorAsReply(w *core.World, r *core.Report, debug bool) {
	n := 0
	for _, f := range w.FuncsIn("pkg/redis/client/cluster") {
		res := f.Signature.Results()
		if res.Len() == 0 || res.At(res.Len()-1).Type().String() != "error" || len(f.Blocks) == 0 {
			continue
		}
		last := res.Len() - 1
		for _, in := range core.Instrs(f) {
			ret, ok := in.(*ssa.Return)
			if !ok {
				continue
			}
			// which calls are known to have failed when this return executes?
			var failed []ssa.Value
			for _, fct := range core.FactsAt(ret.Block()) {
				c, ok := core.FactCmp(fct)
				if !ok || c.Op != token.NEQ || !core.IsNilConst(c.Y) {
					continue
				}
				if c.X.Type().String() != "error" {
					continue
				}
				failed = append(failed, c.X)
			}
			if len(failed) == 0 {
				continue
			}
			n++
			nilRet := false
			for _, v := range core.RetVals(ret, last) {
				if core.IsNilConst(v) {
					nilRet = true
				}
			}
			cons := "error-as-reply/" + core.FuncName(f)
			// a nil error on a failure edge is a fallback when the other results come from an
			// alternative action; it is an error smuggled out as a value when they are built from the error itself
			smuggled := false
			if nilRet {
				for i := 0; i < last; i++ {
					for _, v := range core.RetVals(ret, i) {
						for _, e := range failed {
							if derivesFromValue(v, e, 4) {
								smuggled = true
							}
						}
					}
				}
			}
			if smuggled {
				r.Fail(cons, ret.Pos(), "on the failure edge of a call the function returns a nil error and a value built from that very error: the caller takes the text of the failure for the command's reply although the command was not executed")
			} else if debug {
				r.OK(cons, ret.Pos(), "")
			}
		}
	}
	if n == 0 {
		r.Fail("error-as-reply", token.NoPos, "no failure edge found in the cluster client")
	} else if !debug {
		r.OK("error-as-reply/cluster-client", token.NoPos, "%d failure-edge returns, all carry an error", n)
	}
}

// derivesFromValue: v is e, or is computed from e through conversions,
// interface boxing, phis and call arguments (formatting an error into a
// string is a call), up to the given depth.
func derivesFromValue(v, e ssa.Value, depth int) bool {
	if v == nil || depth < 0 {
		return false
	}
	v = core.Unwrap(v)
	if v == core.Unwrap(e) {
		return true
	}
	switch x := v.(type) {
	case *ssa.MakeInterface:
		return derivesFromValue(x.X, e, depth-1)
	case *ssa.Convert:
		return derivesFromValue(x.X, e, depth-1)
	case *ssa.ChangeInterface:
		return derivesFromValue(x.X, e, depth-1)
	case *ssa.Phi:
		for _, ed := range x.Edges {
			if derivesFromValue(ed, e, depth-1) {
				return true
			}
		}
	case *ssa.Call:
		for _, a := range x.Call.Args {
			if els, ok := core.VariadicElems(a); ok {
				for _, el := range els {
					if derivesFromValue(el, e, depth-1) {
						return true
					}
				}
			}
			if derivesFromValue(a, e, depth-1) {
				return true
			}
		}
	}
	return false
}

// ---------------------------------------------------------------- R19.10 / R19.11 batch-level discipline

// ruleBatchPoisoned: the replay sender does not look at Put's result; it
// relies on Exec/Dispatch reporting whatever went wrong while the batch was
// filled. So (a) every failure Put can return must have been recorded in the
// batcher (joinError), and (b) Exec/Dispatch must return the recorded error
// before anything is sent.
func ruleBatchPoisoned(w *core.World, r *core.Report) {
	isJoin := func(v ssa.Value) bool {
		c, ok := core.Unwrap(v).(*ssa.Call)
		return ok && strings.HasSuffix(core.ResolveCall(c).Name, ").joinError")
	}
	for _, t := range []string{"Batch", "batch2", "txnBatcher"} {
		f := fn(w, r, "(*pkg/redis/client/cluster."+t+").Put")
		if f == nil {
			continue
		}
		bad := ""
		var pos token.Pos = f.Pos()
		n := 0
		for _, in := range core.Instrs(f) {
			ret, ok := in.(*ssa.Return)
			if !ok || len(ret.Results) != 1 {
				continue
			}
			for _, v := range core.RetVals(ret, 0) {
				n++
				if core.IsNilConst(v) || isJoin(v) || core.IsFieldLoad(core.Unwrap(v), t, "err") {
					continue
				}
				bad, pos = "Put returns an error it has not recorded in the batcher: the sender ignores Put's result, so the command is silently dropped and the rest of the batch is sent and acknowledged", ret.Pos()
			}
		}
		r.Check(bad == "" && n > 0, t+".Put/failure-recorded", pos, "%s", bad)
	}
	type sp struct{ typ, method string }
	for _, s := range []sp{{"Batch", "Exec"}, {"batch2", "Dispatch"}, {"txnBatcher", "Dispatch"}} {
		f := fn(w, r, "(*pkg/redis/client/cluster."+s.typ+")."+s.method)
		if f == nil {
			continue
		}
		// every goroutine start / node dispatch / send happens with the recorded error known to be nil
		n, okAll := 0, true
		var pos token.Pos = f.Pos()
		for _, in := range core.Instrs(f) {
			isEffect := false
			switch x := in.(type) {
			case *ssa.Go:
				isEffect = true
			case *ssa.Call:
				nm := core.ResolveCall(x).Name
				if strings.HasSuffix(nm, ").dispatchToNode") || strings.HasSuffix(nm, ").dispatch") || strings.HasSuffix(nm, ").doBatch") || strings.HasSuffix(nm, ").enqueue") || strings.HasSuffix(nm, ").Submit") {
					isEffect = true
				}
			}
			if !isEffect {
				continue
			}
			n++
			clean := false
			for _, fct := range core.FactsAt(in.Block()) {
				c, ok := core.FactCmp(fct)
				if ok && c.Op == token.EQL && core.IsNilConst(c.Y) && core.IsFieldLoad(core.Unwrap(c.X), s.typ, "err") {
					clean = true
				}
			}
			if !clean {
				okAll, pos = false, in.Pos()
			}
		}
		r.Check(okAll && n > 0, s.typ+"."+s.method+"/recorded-error-first", pos, "the batch is sent although an error recorded while it was filled has not been ruled out (effects found: %d)", n)
	}
}

// ruleExecWaitsForAll: Batch.Exec runs one worker per node. It may only return
// after every worker has finished; returning from inside the wait loop lets a
// worker of the abandoned attempt write after the sender's retry has written
// newer values for the same keys.
func ruleExecWaitsForAll(w *core.World, r *core.Report) {
	f := fn(w, r, "(*pkg/redis/client/cluster.Batch).Exec")
	if f == nil {
		return
	}
	var recv *ssa.UnOp
	for _, in := range core.Instrs(f) {
		if u, ok := in.(*ssa.UnOp); ok && u.Op == token.ARROW {
			if ld, ok := u.X.(*ssa.UnOp); ok && ld.Op == token.MUL {
				if fa, ok := ld.X.(*ssa.FieldAddr); ok && core.FieldName(fa) == "done" {
					recv = u
				}
			}
		}
	}
	if recv == nil {
		r.Fail("Batch.Exec/waits-for-all-workers", f.Pos(), "Exec does not wait for its per-node workers")
		return
	}
	head := core.LoopHeadOf(recv.Block())
	if head == nil {
		r.Fail("Batch.Exec/waits-for-all-workers", recv.Pos(), "the wait for the workers is not a loop over all of them")
		return
	}
	inLoop := func(b *ssa.BasicBlock) bool { return head.Dominates(b) && blockReaches(b, head) }
	bad := false
	var pos token.Pos = recv.Pos()
	for _, b := range f.Blocks {
		if !inLoop(b) || b == head {
			continue
		}
		for _, s := range b.Succs {
			if !inLoop(s) {
				bad, pos = true, b.Instrs[len(b.Instrs)-1].Pos()
			}
		}
	}
	// and the workers are started before the wait
	started := false
	for _, in := range core.Instrs(f) {
		if g, ok := in.(*ssa.Go); ok && strings.HasSuffix(core.ResolveCall(g).Name, ").doBatch") {
			started = true
		}
	}
	r.Check(!bad && started, "Batch.Exec/waits-for-all-workers", pos, "the wait loop can be left before every worker has signalled completion (an early return on the first failed node): a worker of the abandoned attempt may still be sending when the caller retries, which inverts the order of writes to a key")
}

func blockReaches(from, to *ssa.BasicBlock) bool {
	seen := map[*ssa.BasicBlock]bool{}
	work := append([]*ssa.BasicBlock{}, from.Succs...)
	for len(work) > 0 {
		b := work[len(work)-1]
		work = work[:len(work)-1]
		if b == to {
			return true
		}
		if seen[b] {
			continue
		}
		seen[b] = true
		work = append(work, b.Succs...)
	}
	return false
}


// ---------------------------------------------------------------- R19.12 no re-send of a redirected transactional batch

// errIsGlobal recognises errors.Is(_, <package-level error named global>).
func errIsGlobal(v ssa.Value, globals ...string) bool {
	c, ok := core.Unwrap(v).(*ssa.Call)
	if !ok || core.ResolveCall(c).Name != "errors.Is" || len(c.Call.Args) != 2 {
		return false
	}
	ld, ok := c.Call.Args[1].(*ssa.UnOp)
	if !ok {
		return false
	}
	g, ok := ld.X.(*ssa.Global)
	if !ok {
		return false
	}
	for _, n := range globals {
		if g.Name() == n {
			return true
		}
	}
	return false
}

// factsBetween: the branch outcomes the path passed strictly between two of its instructions.
func factsBetween(p *core.Path, from, to ssa.Instruction) []core.Fact {
	var out []core.Fact
	ci := 0
	inside := false
	for _, in := range p.Instrs {
		if in == to && inside {
			break
		}
		if iff, ok := in.(*ssa.If); ok {
			// facts are appended in the order the branches are passed
			for ci < len(p.Conds) && p.Conds[ci].If != iff {
				ci++
			}
			if ci < len(p.Conds) {
				if inside {
					out = append(out, p.Conds[ci])
				}
				ci++
			}
		}
		if in == from {
			inside = true
		}
	}
	return out
}

// ruleNoResendAfterRedirect: a MOVED/ASK/CROSSSLOT answer to a batch means
// part of it may already have been executed by the node that owned the
// earlier keys. Re-sending rebuilds the whole batch; in transactional mode on
// a cluster target (where the property promises at-most-once within a run)
// the sender must hand the error up instead. Every second attempt on a path
// whose first attempt was classified as a redirect must therefore have ruled
// out 'transactional and cluster'.
func ruleNoResendAfterRedirect(w *core.World, r *core.Report) {
	c := newSenderCtx(w, r)
	if c == nil {
		return
	}
	send := c.send
	txn := c.txnModeParam()
	isTxnMode := func(p *core.Path, v ssa.Value) bool {
		v = p.Resolve(v)
		if fieldNameOfLoad(v) == "CanTransaction" {
			return true
		}
		if txn != nil {
			if v == ssa.Value(txn) {
				return true
			}
			// captured by the retry closure
			if fv, ok := v.(*ssa.FreeVar); ok && paramBehindFreeVar(fv) == ssa.Value(txn) {
				return true
			}
			if ld, ok := v.(*ssa.UnOp); ok && ld.Op == token.MUL {
				if fv, isFv := ld.X.(*ssa.FreeVar); isFv && paramBehindFreeVar(fv) == ssa.Value(txn) {
					return true
				}
			}
		}
		return false
	}
	isClusterCall := func(v ssa.Value) bool {
		call, ok := core.Unwrap(v).(*ssa.Call)
		if !ok {
			return false
		}
		n := core.ResolveCall(call).Name
		return strings.HasSuffix(n, ".IsCluster") || strings.HasSuffix(n, ").IsCluster")
	}
	bad := ""
	var badPos token.Pos = send.Pos()
	pairs, redirected := 0, 0
	okEnum := core.EnumPathsN(send.Blocks[0], 0, 200000, 3, func(p *core.Path) {
		if bad != "" {
			return
		}
		var attempts []ssa.Instruction
		for _, in := range p.Instrs {
			if ci, ok := in.(*ssa.Call); ok && core.ResolveCall(ci).Callee == c.once {
				attempts = append(attempts, in)
			}
		}
		for k := 0; k+1 < len(attempts); k++ {
			pairs++
			fs := factsBetween(p, attempts[k], attempts[k+1])
			redirect, ruledOut := false, false
			for _, f := range fs {
				cond := p.Resolve(f.Cond)
				if f.Val && errIsGlobal(cond, "ErrMove", "ErrAsk", "ErrCrossSlots") {
					redirect = true
				}
				if !f.Val && (isTxnMode(p, cond) || isClusterCall(cond)) {
					ruledOut = true
				}
			}
			if !redirect {
				continue
			}
			redirected++
			if !ruledOut {
				bad, badPos = "a batch that was answered with MOVED, ASK or CROSSSLOT is sent again on a path that has not ruled out 'transactional mode on a cluster target': the commands ahead of the redirected one were already executed and run a second time", attempts[k+1].Pos()
			}
		}
	})
	if !okEnum {
		r.Undecided("sendFunc/no-resend-after-redirect", send.Pos(), "too many paths")
		return
	}
	r.Check(bad == "" && pairs > 0, "sendFunc/no-resend-after-redirect", badPos, "%s (retries on enumerated paths=%d, after a redirect=%d)", bad, pairs, redirected)
}

// paramBehindFreeVar: the enclosing function's parameter a captured variable stands for
// (the parameter's spill cell, or the parameter itself).
func paramBehindFreeVar(fv *ssa.FreeVar) ssa.Value {
	fn := fv.Parent()
	if fn == nil || fn.Parent() == nil {
		return nil
	}
	idx := -1
	for i, v := range fn.FreeVars {
		if v == fv {
			idx = i
		}
	}
	if idx < 0 {
		return nil
	}
	for _, in := range core.OwnInstrs(fn.Parent()) {
		mc, ok := in.(*ssa.MakeClosure)
		if !ok || mc.Fn != ssa.Value(fn) || idx >= len(mc.Bindings) {
			continue
		}
		b := mc.Bindings[idx]
		if par, isP := b.(*ssa.Parameter); isP {
			return par
		}
		if cell := core.Cell(b); cell != nil {
			for _, st := range core.CellStores(cell) {
				if par, isP := st.Val.(*ssa.Parameter); isP {
					return par
				}
			}
		}
		if al, isA := b.(*ssa.Alloc); isA {
			for _, ref := range *al.Referrers() {
				if st, isSt := ref.(*ssa.Store); isSt && st.Addr == ssa.Value(al) {
					if par, isP := st.Val.(*ssa.Parameter); isP {
						return par
					}
				}
			}
		}
	}
	return nil
}


// factsBefore: the branch outcomes the path passed before it first executed `at`.
func factsBefore(p *core.Path, at ssa.Instruction) []core.Fact {
	var out []core.Fact
	ci := 0
	for _, in := range p.Instrs {
		if in == at {
			break
		}
		if iff, ok := in.(*ssa.If); ok {
			for ci < len(p.Conds) && p.Conds[ci].If != iff {
				ci++
			}
			if ci < len(p.Conds) {
				out = append(out, p.Conds[ci])
				ci++
			}
		}
	}
	return out
}

// ---------------------------------------------------------------- R19.13 a node's queue is filled in dispatch order

// ruleNodeQueueOrder: commands of one node are executed in the order they
// enter its request queue. That is the dispatcher's order only if the
// goroutine that calls Submit does the send itself: a send handed to a
// background goroutine (to avoid blocking on a full queue) lets a later
// request overtake an earlier one, and two writes of one key reach the owner
// in the wrong order.
func ruleNodeQueueOrder(w *core.World, r *core.Report) {
	n := 0
	isQueue := func(v ssa.Value) bool {
		ld, ok := core.Unwrap(v).(*ssa.UnOp)
		if !ok || ld.Op != token.MUL {
			return false
		}
		fa, ok := ld.X.(*ssa.FieldAddr)
		return ok && core.FieldName(fa) == "reqCh" && strings.HasSuffix(core.TypeName(fa.X.Type()), "nodePipeline")
	}
	for _, f := range w.FuncsIn("pkg/redis/client/cluster") {
		for _, in := range core.OwnInstrs(f) {
			sends := false
			switch x := in.(type) {
			case *ssa.Send:
				sends = isQueue(x.Chan)
			case *ssa.Select:
				for _, st := range x.States {
					if st.Dir == types.SendOnly && isQueue(st.Chan) {
						sends = true
					}
				}
			}
			if !sends {
				continue
			}
			n++
			// in a closure: is it run as a goroutine / deferred to later?
			async := false
			for g := f; g.Parent() != nil; g = g.Parent() {
				for _, i2 := range core.OwnInstrs(g.Parent()) {
					switch y := i2.(type) {
					case *ssa.Go:
						if mc, ok := y.Call.Value.(*ssa.MakeClosure); ok && mc.Fn == ssa.Value(g) {
							async = true
						}
					case *ssa.Call:
						if strings.Contains(core.ResolveCall(y).Name, "SafeGo") {
							for _, a := range y.Call.Args {
								if mc, ok := a.(*ssa.MakeClosure); ok && mc.Fn == ssa.Value(g) {
									async = true
								}
							}
						}
					}
				}
			}
			r.Check(!async, shortName(core.FuncName(outermost(f)))+"/enqueue-in-caller-order", in.Pos(), "a request is put into a node's queue from a background goroutine: requests no longer enter the queue in the order they were submitted, so two writes of one key can reach the slot owner inverted")
		}
	}
	if n == 0 {
		r.Fail("nodePipeline/enqueue-in-caller-order", token.NoPos, "no send into a node's request queue found")
	}
}

// ---------------------------------------------------------------- R19.14 one node, one node batch

// ruleOneBatchPerNode: Exec runs the node batches of a plain batch concurrently,
// one connection each. Two writes of one key keep their order only if they sit in
// the same node batch, i.e. if a node never gets a second batch: Put may open a
// new node batch only after it compared the chosen node with the node of every
// batch already open and found none — a scan over all of them, from the first to
// the last, that ran to its end. Looking at the most recent batch only gives
// [A][B][A] for the node sequence A, B, A.
func ruleOneBatchPerNode(w *core.World, r *core.Report) {
	f := fn(w, r, "(*pkg/redis/client/cluster.Batch).Put")
	if f == nil {
		return
	}
	var choose ssa.Instruction
	for _, s := range core.Sites(f, false) {
		if s.Instr.Parent() == f && (strings.HasSuffix(s.Name, "Cluster).ChooseNodeWithCmd") || returnsNodeFor(s)) {
			choose = s.Instr
		}
	}
	if choose == nil {
		r.Undecided("Batch.Put/one-batch-per-node", f.Pos(), "the node choice was not found")
		return
	}
	isBatchesField := func(v ssa.Value) bool { return core.IsFieldLoad(core.Unwrap(v), "Batch", "batches") }
	// the batch's list of open node batches: read from the batch, or the parameter through which a helper of Put
	// is handed it (at every call of that helper in Put)
	isBatches := func(v ssa.Value) bool {
		if isBatchesField(v) {
			return true
		}
		par, isPar := core.Unwrap(v).(*ssa.Parameter)
		if !isPar || par.Parent() == f {
			return false
		}
		vals := argValues(par, f)
		if len(vals) == 0 || (len(vals) == 1 && vals[0] == ssa.Value(par)) {
			return false
		}
		for _, a := range vals {
			if !isBatchesField(a) {
				return false
			}
		}
		return true
	}
	// the scan: batches[i].node compared with the node, i running over 0 .. len(batches)-1
	var scanIf *ssa.If
	var scanIdx *ssa.Phi
	// in Put itself, or in a position-finding helper of the package that Put's paths step into
	var scanInstrs []ssa.Instruction
	for _, g := range reachableFuncs(f) {
		if g == f || (g.Parent() == nil && core.Transparent != nil && core.Transparent(g)) {
			scanInstrs = append(scanInstrs, core.OwnInstrs(g)...)
		}
	}
	for _, in := range scanInstrs {
		cmp, ok := in.(*ssa.BinOp)
		if !ok || (cmp.Op != token.EQL && cmp.Op != token.NEQ) {
			continue
		}
		for _, side := range []ssa.Value{cmp.X, cmp.Y} {
			ld, ok := core.Unwrap(side).(*ssa.UnOp)
			if !ok || ld.Op != token.MUL {
				continue
			}
			fa, ok := ld.X.(*ssa.FieldAddr)
			if !ok || core.FieldName(fa) != "node" {
				continue
			}
			ia, ok := fa.X.(*ssa.IndexAddr)
			if !ok || !isBatches(ia.X) {
				continue
			}
			from, bound, ok := indexRange(ia.Index)
			if !ok || from != 0 {
				continue
			}
			if c, isC := core.Unwrap(bound).(*ssa.Call); isC && isBuiltin(c, "len") && isBatches(c.Call.Args[0]) {
				// the loop head's own test is the exit by the bound
				idx := core.Unwrap(ia.Index)
				var ph *ssa.Phi
				switch y := idx.(type) {
				case *ssa.Phi:
					ph = y
				case *ssa.BinOp:
					ph, _ = y.X.(*ssa.Phi)
				}
				if ph != nil {
					if iff, isIf := ph.Block().Instrs[len(ph.Block().Instrs)-1].(*ssa.If); isIf {
						scanIf, scanIdx = iff, ph
					}
				}
			}
		}
	}
	if scanIf == nil {
		r.Fail("Batch.Put/one-batch-per-node", f.Pos(), "no scan of all open node batches (batches[i].node == node for i from 0 to len(batches)-1) precedes the opening of a new one: a node that reappears later in the batch gets a second node batch, which Exec runs concurrently with the first")
		return
	}
	isNewBatch := func(in ssa.Instruction) bool {
		st, ok := in.(*ssa.Store)
		if !ok {
			return false
		}
		fa, ok := st.Addr.(*ssa.FieldAddr)
		if !ok || core.FieldName(fa) != "batches" || !strings.HasSuffix(core.TypeName(fa.X.Type()), "Batch") {
			return false
		}
		c, isC := core.Unwrap(st.Val).(*ssa.Call)
		return isC && isBuiltin(c, "append")
	}
	bad := ""
	var pos token.Pos = f.Pos()
	n := 0
	okEnum := core.EnumPathsN(f.Blocks[0], 0, 400000, 2, func(p *core.Path) {
		if bad != "" {
			return
		}
		after := false
		var nb ssa.Instruction
		for _, in := range p.Instrs {
			if in == choose {
				after = true
			}
			if after && isNewBatch(in) {
				nb = in
			}
		}
		if nb == nil {
			return
		}
		n++
		done := false
		for _, fct := range factsBetween(p, choose, nb) {
			if fct.If == scanIf && !fct.Val {
				done = true
			}
		}
		// or the opening is guarded by "the scan index reached the number of open batches", which only the
		// exhausted scan leaves behind (a match leaves the index below it)
		for _, fct := range core.FactsAt(nb.Block()) {
			c, ok := core.FactCmp(fct)
			if !ok || c.Op != token.EQL {
				continue
			}
			isLenB := func(v ssa.Value) bool {
				call, ok := core.Unwrap(v).(*ssa.Call)
				return ok && isBuiltin(call, "len") && isBatches(call.Call.Args[0])
			}
			if (core.Unwrap(c.X) == ssa.Value(scanIdx) && isLenB(c.Y)) || (core.Unwrap(c.Y) == ssa.Value(scanIdx) && isLenB(c.X)) {
				done = true
			}
		}
		if !done && os.Getenv("GUNYU_DEBUG") != "" {
			for _, fct := range factsBetween(p, choose, nb) {
				fmt.Println("DEBUG r19.14 fact", fct.Val, fct.Cond.String(), fct.If == scanIf, w.Pos(fct.Cond.Pos()))
			}
			fmt.Println("DEBUG r19.14 scanIf", w.Pos(scanIf.Cond.Pos()), scanIf.Cond.String())
		}
		if !done {
			bad, pos = "a new node batch is opened on a path on which the scan of the open batches did not run to its end", nb.Pos()
		}
	})
	if !okEnum {
		r.Undecided("Batch.Put/one-batch-per-node", f.Pos(), "too many paths")
		return
	}
	r.Check(bad == "" && n > 0, "Batch.Put/one-batch-per-node", pos, "%s (paths opening a batch=%d)", bad, n)
}

// ---------------------------------------------------------------- R19.15 after ASKING, the command's own answer is what counts

// ruleAskReplyIsTheCommands: an ASK redirect is followed by two requests on the
// target's connection, ASKING and the command, and by two answers. What
// handleReply judges — and what the caller gets — must be the second answer, the
// command's: judged on ASKING's "+OK" every redirected command looks successful,
// a TRYAGAIN or MOVED of the importing node disappears and the command has run on
// neither node. On every path the value handed to handleReply is the result of
// the last receive of the path, and there are as many receives as sends.
func ruleAskReplyIsTheCommands(w *core.World, r *core.Report) {
	f := fn(w, r, "(*pkg/redis/client/cluster.Cluster).handleAsk")
	if f == nil {
		return
	}
	bad := ""
	var pos token.Pos = f.Pos()
	n := 0
	okEnum := core.EnumPathsN(f.Blocks[0], 0, 100000, 1, func(p *core.Path) {
		if bad != "" {
			return
		}
		sends, recvs := 0, 0
		var last ssa.Value
		for _, s := range pathSites(p) {
			switch {
			case strings.HasSuffix(s.Name, "redisConn).send"):
				sends++
			case strings.HasSuffix(s.Name, "redisConn).receive"):
				recvs++
				last = s.Value()
			case strings.HasSuffix(s.Name, "Cluster).handleReply"):
				n++
				a := s.Args()
				okArg := false
				if len(a) >= 2 {
					if e, isE := core.Unwrap(p.Resolve(a[1])).(*ssa.Extract); isE && e.Index == 0 && e.Tuple == last {
						okArg = true
					}
				}
				if !okArg || sends != recvs {
					bad, pos = fmt.Sprintf("the answer judged after an ASK redirect is not the result of the last receive (requests sent=%d, answers read=%d): the command is judged on ASKING's +OK and its own refusal is lost", sends, recvs), s.Pos()
				}
			}
		}
	})
	if !okEnum {
		r.Undecided("Cluster.handleAsk/judges-the-commands-answer", f.Pos(), "too many paths")
		return
	}
	r.Check(bad == "" && n > 0, "Cluster.handleAsk/judges-the-commands-answer", pos, "%s", bad)
}

// ---------------------------------------------------------------- R19.16 a redirect stays with the request it was answered to

// ruleRedirectStaysWithItsRequest: a node pipeline keeps several requests in
// flight on one connection. When the head request is answered with an error the
// connection is given up and the requests behind it are failed. What they are
// failed with must not be the target's reply to the head request: a MOVED / ASK
// handed to a transaction behind the redirected one makes it follow the
// redirect and run again, although the node may already have executed it. In
// the fail-all loop of the pipeline, the error handed on is either one the path
// has tested not to be a reply of the target (errors.As(…, *RedisError) false),
// or a new error that does not wrap it.
func ruleRedirectStaysWithItsRequest(w *core.World, r *core.Report) {
	f := fn(w, r, "(*pkg/redis/client/cluster.nodePipeline).run")
	if f == nil {
		return
	}
	isAsRedisErr := func(v ssa.Value) bool {
		c, ok := core.Unwrap(v).(*ssa.Call)
		if !ok || core.ResolveCall(c).Name != "errors.As" || len(c.Call.Args) != 2 {
			return false
		}
		target := c.Call.Args[1]
		if mi, isMI := target.(*ssa.MakeInterface); isMI {
			target = mi.X
		}
		return strings.Contains(target.Type().String(), "RedisError")
	}
	n := 0
	// run, its closures, and the helpers / methods of the package its phases may live in
	seenFn := map[*ssa.Function]bool{}
	var scope []*ssa.Function
	for _, g0 := range reachableFuncs(f) {
		for _, g := range core.DeepFuncs(g0) {
			if !seenFn[g] {
				seenFn[g] = true
				scope = append(scope, g)
			}
		}
	}
	for _, g := range scope {
		// the fail-all loop: complete(nil, e) called in a loop of g
		var sites []*ssa.Call
		for _, in := range core.OwnInstrs(g) {
			c, ok := in.(*ssa.Call)
			if !ok || !strings.HasSuffix(core.ResolveCall(c).Name, "nodePipelineRequest).complete") || core.LoopHeadOf(c.Block()) == nil {
				continue
			}
			sites = append(sites, c)
		}
		if len(sites) == 0 {
			continue
		}
		bad := ""
		var pos token.Pos = g.Pos()
		okEnum := core.EnumPathsN(g.Blocks[0], 0, 100000, 2, func(p *core.Path) {
			if bad != "" {
				return
			}
			for _, in := range p.Instrs {
				c, ok := in.(*ssa.Call)
				if !ok {
					continue
				}
				is := false
				for _, s := range sites {
					if s == c {
						is = true
					}
				}
				if !is || len(c.Call.Args) < 3 {
					continue
				}
				n++
				e := core.Unwrap(p.Resolve(c.Call.Args[2]))
				switch x := e.(type) {
				case *ssa.Call:
					if core.ResolveCall(x).Name == "fmt.Errorf" {
						if format, isC := core.ConstString(x.Call.Args[0]); isC && !strings.Contains(format, "%w") {
							continue // a new error that does not wrap the reply
						}
					}
				case *ssa.Const:
					continue
				}
				if pathAssumed(p, isAsRedisErr, false) {
					continue // tested: not a reply of the target (a network error)
				}
				bad, pos = "the requests behind a failed one are completed with an error that may be the target's reply to that request (a MOVED/ASK): they follow a redirect that was not theirs and are sent again", c.Pos()
			}
		})
		if !okEnum {
			r.Undecided("nodePipeline.run/redirect-stays-with-its-request", g.Pos(), "too many paths")
			continue
		}
		if bad != "" {
			r.Fail("nodePipeline.run/redirect-stays-with-its-request", pos, "%s", bad)
			return
		}
	}
	r.Check(n > 0, "nodePipeline.run/redirect-stays-with-its-request", f.Pos(), "the loop that fails the requests in flight was not found")
}

// returnsNodeFor: a routing call of the cluster object: (cmd, args...) in, the node (and an error) out.
func returnsNodeFor(s core.Site) bool {
	if s.Callee == nil || s.Callee.Signature.Results().Len() != 2 || !s.Callee.Signature.Variadic() {
		return false
	}
	pt, ok := s.Callee.Signature.Results().At(0).Type().(*types.Pointer)
	return ok && strings.HasSuffix(core.TypeName(pt.Elem()), "redisNode")
}
