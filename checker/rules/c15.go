package rules

import (
	"fmt"
	"go/token"
	"strconv"
	"strings"

	"gunyucheck/core"

	"golang.org/x/tools/go/ssa"
)

func init() {
	All["C15"] = c15
	core.Explanations["C15"] = "Decides necessary structural conditions of 'at most one instance holds a leader lease': the Lua scripts embedded in the Redis election are parsed (subset parser in the checker) and every script path is enumerated: " +
		"(R15.1) campaign/renew reads the lease once, writes only when it is absent or owned by the caller, creates it with an expiry and extends it with the same ttl, returns 1 exactly on those paths; (R15.2) resign deletes only the caller's own lease; " +
		"(R15.3) the Go wrappers report leader exactly for reply 1, an error as candidate + error, and Renew succeeds only for leader; (R15.4) each operation is exactly one atomic EVAL with (script, 1, key, id, ttl) and nothing else in the election touches the key with a write; " +
		"(R15.5) a failed renewal (any error) closes the running syncer with a non-nil error, and stepping down stops the syncer before resigning; (R15.6) the configuration clamp ends with renew interval <= lease/3 on every path. Not decided: Redis' expiry semantics and real time (trusted base)."
}

var luaReadOnly = map[string]bool{"GET": true, "TTL": true, "PTTL": true, "EXISTS": true}

// evalScript finds the single `Do("eval", script, ...)` of a method and
// returns the script text and the remaining arguments.
func evalScript(f *ssa.Function) (script string, rest []ssa.Value, site core.Site, nDo int, ok bool) {
	script, rest, site, nDo, ok = evalScriptIn(f, nil)
	if ok || nDo > 0 {
		return
	}
	// the EVAL may sit in a helper shared by the operations and unknown to the rule base: the script is
	// then the constant the operation passes to it
	for _, cs := range core.Sites(f, true) {
		g := cs.Callee
		if g == nil || core.Transparent == nil || !core.Transparent(g) {
			continue
		}
		call, isCall := cs.Instr.(*ssa.Call)
		if !isCall {
			continue
		}
		s2, r2, st2, n2, ok2 := evalScriptIn(g, call)
		nDo += n2
		if ok2 {
			script, rest, site, ok = s2, r2, st2, true
		}
	}
	return
}

// electionHelpers: the functions evalScript looked through.
func isElectionHelper(g *ssa.Function) bool {
	if g == nil || core.Transparent == nil || !core.Transparent(g) {
		return false
	}
	_, _, _, n, _ := evalScriptIn(g, nil)
	return n > 0
}

func evalScriptIn(f *ssa.Function, via *ssa.Call) (script string, rest []ssa.Value, site core.Site, nDo int, ok bool) {
	argOf := func(v ssa.Value) ssa.Value {
		if via == nil {
			return v
		}
		u := core.Unwrap(v)
		for i, p := range f.Params {
			if ssa.Value(p) == u && i < len(via.Call.Args) {
				return via.Call.Args[i]
			}
		}
		return v
	}
	for _, s := range core.Sites(f, true) {
		if s.Method != "Do" {
			continue
		}
		nDo++
		cmd, isC := core.CmdName(s)
		if !isC || cmd != "eval" {
			continue
		}
		el, isV := core.CmdArgs(s)
		if !isV || len(el) < 1 {
			continue
		}
		str, isS := core.ConstString(argOf(el[0]))
		if !isS {
			continue
		}
		script, rest, site, ok = str, el[1:], s, true
	}
	return
}

func c15(w *core.World, r *core.Report) {
	camp := fn(w, r, "(*pkg/cluster.redisElection).Campaign")
	res := fn(w, r, "(*pkg/cluster.redisElection).Resign")

	r.Rule("R15.1", "campaign script: one read of the lease; writes and 'return 1' exactly on the absent / owned-by-caller paths; created with expiry, extended with the ttl", 1)
	if camp != nil {
		script, _, site, _, ok := evalScript(camp)
		if !ok {
			r.Fail("Campaign/script", camp.Pos(), "campaign is not a single EVAL of a constant script: compare-and-set is no longer atomic")
		} else {
			ruleCampaignScript(r, script, site.Pos())
		}
	}
	r.Rule("R15.2", "resign script: delete only under 'lease is mine'", 1)
	if res != nil {
		script, _, site, _, ok := evalScript(res)
		if !ok {
			r.Fail("Resign/script", res.Pos(), "resign is not a single EVAL of a constant owner-checking script: it can delete another instance's unexpired lease")
		} else {
			ruleResignScript(r, script, site.Pos())
		}
	}

	r.Rule("R15.3", "Go wrappers: leader iff reply 1; error => candidate + error; Renew nil only for leader", 2)
	if camp != nil {
		ruleCampaignWrapper(w, r, camp)
	}
	if f := fn(w, r, "(*pkg/cluster.redisElection).Renew"); f != nil {
		leader, _ := pkgConstInt(w, "pkg/cluster", "RoleLeader")
		bad := ""
		var badPos token.Pos
		n := 0
		core.EnumPaths(f.Blocks[0], 0, 1000, func(p *core.Path) {
			ret, ok := p.End.(*ssa.Return)
			if !ok || len(ret.Results) != 1 {
				return
			}
			n++
			if pathNil(p, ret.Results[0]) {
				isRole := isResultOf("(*pkg/cluster.redisElection).Campaign", 0)
				if !(p.Holds(token.EQL, isRole, isConstInt(leader))) {
					bad, badPos = "renewal reports success on a path where the campaign did not answer 'leader'", ret.Pos()
				}
			}
		})
		r.Check(bad == "" && n >= 3, "Renew/nil-only-for-leader", badPos, "%s", bad)
	}

	r.Rule("R15.4", "one atomic EVAL per operation with (script, 1, key, id, ttl); no other write to the election key", 3)
	for name, f := range map[string]*ssa.Function{"Campaign": camp, "Resign": res} {
		if f == nil {
			continue
		}
		_, rest, site, nDo, ok := evalScript(f)
		if !ok {
			r.Fail(name+"/eval-args", f.Pos(), "no EVAL found")
			continue
		}
		// the three fields by what the constructor puts into them (electionFieldRoles, r7_n3.go), not by their names
		keyF, idF, ttlF, okRoles := electionFieldRoles(w, r)
		if !okRoles {
			r.Undecided(name+"/eval-args", site.Pos(), "which fields of the election hold the lease key, the holder's id and the ttl cannot be read from (*redisCluster).NewElection (expected: one field stored from the key parameter, one from the id parameter, one from a field of the cluster object)")
			continue
		}
		okArgs := len(rest) == 4
		if okArgs {
			one, isOne := core.ConstString(rest[0])
			okArgs = isOne && one == "1" &&
				core.IsFieldLoad(core.Unwrap(rest[1]), "redisElection", keyF) &&
				core.IsFieldLoad(core.Unwrap(rest[2]), "redisElection", idF) &&
				core.IsFieldLoad(core.Unwrap(rest[3]), "redisElection", ttlF)
		}
		r.Check(okArgs && nDo == 1, name+"/eval-args", site.Pos(), "expected exactly one target call: EVAL script 1 <key> <id> <ttl> (calls=%d)", nDo)
	}
	// other methods of the election must not write
	wr := 0
	for _, f := range w.FuncsIn("pkg/cluster") {
		if f.Signature.Recv() == nil || !strings.HasSuffix(core.TypeName(f.Signature.Recv().Type()), "redisElection") {
			continue
		}
		if f == camp || f == res || isElectionHelper(f) {
			continue // the helper's EVAL is checked with the operations that call it
		}
		for _, s := range core.Sites(f, true) {
			if s.Method == "Do" {
				cmd, isC := core.CmdName(s)
				if !isC || !luaReadOnly[strings.ToUpper(cmd)] {
					wr++
					r.Fail("redisElection/other-writer/"+f.Name(), s.Pos(), "the election key is written outside the campaign and resign scripts")
				}
			}
		}
	}
	if wr == 0 {
		r.OK("redisElection/other-writer", token.NoPos, "")
	}

	r.Rule("R15.5", "renewal wiring: any renewal error (through the retry wrapper, which returns the last failure) closes the syncer with a non-nil error; step-down stops the syncer before resigning", 4)
	ruleRenewWiring(w, r)
	ruleRetryHelper(w, r, "pkg/util.Retry") // the renewal's failure reaches the ticker only if the retry wrapper returns it

	r.Rule("R15.7", "one lease per shard: the election key derives from the shard master's address and nothing instance-specific", 1)
	ruleElectionKey(w, r)
	r.Rule("R15.8", "the identity an instance campaigns with is the address it advertises to its peers", 1)
	ruleElectionIdentity(w, r)
	r.Rule("R15.11", "every instance runs the lease scripts against the same server: a stand-alone client is the connection to the configuration as given", 1)
	ruleOneLeaseStore(w, r)
	r.Rule("R15.10", "on the shared stand-alone connection a request and its reply are one critical section of the connection's guard", 1)
	ruleRequestReplyAtomic(w, r)
	r.Rule("R15.9", "the lease ttl reaches the election in the unit the scripts use it in (seconds)", 1)
	ruleLeaseTtlUnit(w, r)

	r.Rule("R15.6", "configuration: renew interval <= lease timeout / 3 after the last write of either field", 2)
	ruleLeaseConfig(w, r)
	r.Rule("R15.12", "the lease period of the Redis cluster object is written by its constructor only", 1)
	ruleLeaseTtlFixedAtConstruction(w, r)
	r.Rule("R15.13", "a renewal attempt reports nil only when the election answered nil", 1)
	ruleRenewResultIsTheAnswer(w, r)
}

func luaPathsOf(r *core.Report, cons, script string, pos token.Pos) ([]*core.LuaPath, string) {
	stmts, err := core.ParseLua(script)
	if err != nil {
		r.Undecided(cons, pos, "the embedded script uses Lua the checker's subset parser cannot read (%v)", err)
		return nil, ""
	}
	paths := core.LuaPaths(stmts)
	// the lease read: exactly one GET of KEYS[1] on every path, before any write
	cur := ""
	for _, p := range paths {
		gets := 0
		for i, c := range p.Calls {
			if c.Val == "redis.call" && len(c.Args) >= 2 && strings.EqualFold(c.Args[0].Val, "GET") {
				gets++
				if c.Args[1].String() != "KEYS[1]" {
					r.Fail(cons, pos, "the script reads a key other than KEYS[1]")
					return nil, ""
				}
				cur = "result#" + itoa(i+1) + ":" + c.String()
			}
		}
		if gets != 1 {
			r.Fail(cons, pos, "a script path reads the lease %d times (expected once, before deciding)", gets)
			return nil, ""
		}
	}
	return paths, cur
}

func itoa(i int) string { return strconv.Itoa(i) }

func ruleCampaignScript(r *core.Report, script string, pos token.Pos) {
	paths, cur := luaPathsOf(r, "Campaign/script", script, pos)
	if paths == nil {
		return
	}
	absent := "(" + cur + " == false)"
	mine := "(" + cur + " == ARGV[1])"
	nOwn := 0
	for _, p := range paths {
		isAbsent, isMine := false, false
		for _, c := range p.Conds {
			if c == absent {
				isAbsent = true
			}
			if c == mine {
				isMine = true
			}
		}
		owner := isAbsent || isMine
		var writes []*core.LuaExpr
		for _, c := range p.Calls {
			if c.Val != "redis.call" || len(c.Args) == 0 {
				r.Fail("Campaign/script", pos, "unexpected call %s", c.String())
				return
			}
			if !luaReadOnly[strings.ToUpper(c.Args[0].Val)] {
				writes = append(writes, c)
			}
		}
		if !owner {
			if len(writes) > 0 {
				r.Fail("Campaign/script", pos, "the script writes the lease (%s) on a path where it is neither absent nor owned by the caller (conditions: %v): another instance's unexpired lease is overwritten", writes[0].String(), p.Conds)
				return
			}
			if p.Ret != "0" {
				r.Fail("Campaign/script", pos, "the script answers %s on a path where the lease belongs to another instance (conditions: %v)", p.Ret, p.Conds)
				return
			}
			continue
		}
		nOwn++
		if p.Ret != "1" {
			r.Fail("Campaign/script", pos, "the script does not answer 1 although the lease is absent or owned (conditions: %v)", p.Conds)
			return
		}
		okWrite := false
		for _, c := range writes {
			a := c.Args
			cmd := strings.ToUpper(a[0].Val)
			if len(a) < 2 || a[1].String() != "KEYS[1]" {
				r.Fail("Campaign/script", pos, "write to a key other than KEYS[1]: %s", c.String())
				return
			}
			switch cmd {
			case "SET":
				hasEx := false
				for i := 3; i+1 < len(a); i++ {
					if (strings.EqualFold(a[i].Val, "EX") || strings.EqualFold(a[i].Val, "PX")) && a[i+1].String() == "ARGV[2]" {
						hasEx = true
						leaseScriptUnits[strings.ToUpper(a[i].Val)] = true
					}
				}
				if len(a) < 3 || a[2].String() != "ARGV[1]" || !hasEx {
					r.Fail("Campaign/script", pos, "the lease must be SET to the caller's id with EX ttl (a lease without expiry never lapses): %s", c.String())
					return
				}
				okWrite = true
			case "EXPIRE", "PEXPIRE":
				leaseScriptUnits[map[string]string{"EXPIRE": "EX", "PEXPIRE": "PX"}[cmd]] = true
				if len(a) != 3 || a[2].String() != "ARGV[2]" {
					r.Fail("Campaign/script", pos, "the lease must be extended by the ttl argument: %s", c.String())
					return
				}
				if isMine {
					okWrite = true
				}
			default:
				r.Fail("Campaign/script", pos, "unexpected write %s", c.String())
				return
			}
		}
		if isAbsent && !isMine {
			// must create
			created := false
			for _, c := range writes {
				if strings.EqualFold(c.Args[0].Val, "SET") {
					created = true
				}
			}
			okWrite = created
		}
		if !okWrite {
			r.Fail("Campaign/script", pos, "a winning path neither creates nor extends the lease (conditions: %v)", p.Conds)
			return
		}
	}
	r.Check(nOwn >= 2 && len(paths) >= 3, "Campaign/script", pos, "expected absent / owned / foreign paths, found %d paths (%d winning)", len(paths), nOwn)
}

func ruleResignScript(r *core.Report, script string, pos token.Pos) {
	paths, cur := luaPathsOf(r, "Resign/script", script, pos)
	if paths == nil {
		return
	}
	mine := "(" + cur + " == ARGV[1])"
	dels := 0
	for _, p := range paths {
		isMine := false
		for _, c := range p.Conds {
			if c == mine {
				isMine = true
			}
		}
		for _, c := range p.Calls {
			if len(c.Args) == 0 || luaReadOnly[strings.ToUpper(c.Args[0].Val)] {
				continue
			}
			if !strings.EqualFold(c.Args[0].Val, "DEL") || len(c.Args) != 2 || c.Args[1].String() != "KEYS[1]" {
				r.Fail("Resign/script", pos, "unexpected write in the resign script: %s", c.String())
				return
			}
			if !isMine {
				r.Fail("Resign/script", pos, "the lease is deleted on a path that did not establish that it belongs to the caller (conditions: %v)", p.Conds)
				return
			}
			dels++
		}
	}
	r.Check(dels == 1, "Resign/script", pos, "expected exactly one owner-checked DEL, found %d", dels)
}

func ruleCampaignWrapper(w *core.World, r *core.Report, f *ssa.Function) {
	leader, ok1 := pkgConstInt(w, "pkg/cluster", "RoleLeader")
	cand, ok2 := pkgConstInt(w, "pkg/cluster", "RoleCandidate")
	if !ok1 || !ok2 {
		r.Unresolved("cluster.RoleLeader", "role constants not found")
		return
	}
	isRet := isResultOf("pkg/redis/client/common.Int", 0)
	isErr := isResultOf("pkg/redis/client/common.Int", 1)
	bad := ""
	var badPos token.Pos
	n := 0
	core.EnumPaths(f.Blocks[0], 0, 1000, func(p *core.Path) {
		ret, ok := p.End.(*ssa.Return)
		if !ok || len(ret.Results) != 2 {
			return
		}
		n++
		role, isC := core.ConstInt(p.Resolve(ret.Results[0]))
		if !isC {
			bad, badPos = "role is not constant per path", ret.Pos()
			return
		}
		failed := p.Holds(token.NEQ, isErr, core.IsNilConst)
		if failed {
			if role != cand || pathNil(p, ret.Results[1]) {
				bad, badPos = "a failed campaign must answer candidate with a non-nil error", ret.Pos()
			}
			return
		}
		won := p.Holds(token.EQL, isRet, isConstInt(1))
		if (role == leader) != won {
			bad, badPos = "leader must be answered exactly when the script replied 1", ret.Pos()
		}
	})
	r.Check(bad == "" && n >= 3, "Campaign/wrapper", badPos, "%s (paths=%d)", bad, n)
}

func ruleRenewWiring(w *core.World, r *core.Report) {
	f := fn(w, r, "(*cmd.SyncerCmd).clusterTicker")
	if f != nil {
		// the inner closure that retries the renewal
		var inner *ssa.Function
		// (a closure of the ticker, or a function split off from it)
		for _, c := range append(core.DeepFuncs(f)[1:], core.ExpandedCallees(f)...) {
			has := false
			for _, in := range core.OwnInstrs(c) {
				if ci, ok := in.(ssa.CallInstruction); ok && core.ResolveCall(ci).Name == "pkg/util.Retry" {
					has = true
				}
			}
			if has {
				inner = c
			}
		}
		if inner == nil {
			r.Unresolved("clusterTicker/renew-closure", "closure retrying the renewal not found")
		} else {
			isRetryErr := isResultOf("pkg/util.Retry", -1)
			bad := ""
			var badPos token.Pos
			n := 0
			core.EnumPaths(inner.Blocks[0], 0, 10000, func(p *core.Path) {
				ret, ok := p.End.(*ssa.Return)
				if !ok || len(ret.Results) != 2 {
					return
				}
				if !p.Holds(token.NEQ, isRetryErr, core.IsNilConst) {
					return
				}
				n++
				if !isRetryErr(p.Resolve(ret.Results[1])) {
					bad, badPos = "a failed lease renewal is not reported to the ticker (the instance keeps acting as leader after its lease may have lapsed)", ret.Pos()
				}
			})
			// and no path avoids the test of the retry result
			r.Check(bad == "" && n >= 1, "clusterTicker/renew-error-propagates", badPos, "%s (failing paths=%d)", bad, n)
			// outer: closure's error != nil => wait.Close(non-nil)
			closed := false
			for _, s := range core.Sites(f, false) {
				if s.Method != "Close" || !s.Common().IsInvoke() {
					continue
				}
				var call ssa.Value
				for _, s2 := range core.Sites(f, false) {
					if s2.Callee == inner {
						call = s2.Value()
					}
				}
				if call == nil {
					continue
				}
				if core.NilFact(s.Instr.Block(), core.ErrOf(call), false) && len(s.Args()) == 1 && !core.IsNilConst(s.Args()[0]) &&
					core.DependsOnDeep(s.Args()[0], core.ErrOf(call)) {
					closed = true
				}
			}
			r.Check(closed, "clusterTicker/close-on-error", f.Pos(), "an error from the renewal/campaign step must close the syncer's wait with that (non-nil) error")
		}
	}
	// step-down order in runCluster's goroutine: Stop ≺ Resign ≺ (role = candidate)
	g := fn(w, r, "(*cmd.SyncerCmd).runCluster")
	if g == nil {
		return
	}
	found := false
	for _, c := range core.DeepFuncs(g) {
		rs := core.SitesNamed(c, false, "iface:pkg/cluster.Election.Resign")
		if len(rs) == 0 {
			continue
		}
		found = true
		for _, rsn := range rs {
			stopBefore := false
			for _, s := range core.Sites(c, false) {
				if s.Method == "Stop" && core.Dominates(s.Instr, rsn.Instr) {
					stopBefore = true
				}
			}
			// Resign happens under role == leader
			leader, _ := pkgConstInt(w, "pkg/cluster", "RoleLeader")
			isLeader := false
			for _, fct := range core.FactsAt(rsn.Instr.Block()) {
				if c, ok := core.FactCmp(fct); ok && c.Op == token.EQL && isConstInt(leader)(c.Y) {
					isLeader = true
				}
			}
			r.Check(stopBefore && isLeader, "runCluster/stop-before-resign", rsn.Pos(), "the syncer must be stopped before the lease is released, and only a leader resigns (stop=%v leader=%v)", stopBefore, isLeader)
		}
	}
	if !found {
		r.Fail("runCluster/stop-before-resign", g.Pos(), "no resign on step-down")
	}
}

func ruleLeaseConfig(w *core.World, r *core.Report) {
	f := fn(w, r, "(*config.ClusterConfig).fix")
	if f == nil {
		return
	}
	// Decided on the values the two fields hold when fix returns successfully, path by path:
	// a small memory model (field -> value last stored on the path, or the configured value) gives
	// every read of a field its value, branch outcomes become facts about those values, and
	// renew <= lease/3 must follow from them. Helpers the normalisation is moved into are part
	// of the path (see path stepping), so an inline if-chain and a normalise/clamp helper read alike.
	recvField := func(p *core.Path, v ssa.Value) (string, bool) {
		ld, ok := v.(*ssa.UnOp)
		if !ok || ld.Op != token.MUL {
			return "", false
		}
		fa, ok := ld.X.(*ssa.FieldAddr)
		if !ok || !strings.HasSuffix(core.TypeName(fa.X.Type()), "ClusterConfig") {
			return "", false
		}
		n := core.FieldName(fa)
		if n != "LeaseTimeout" && n != "LeaseRenewInterval" {
			return "", false
		}
		return n, true
	}
	type fact struct {
		op   token.Token
		x, y string
	}
	bad := ""
	var badPos token.Pos = f.Pos()
	paths := 0
	okEnum := core.EnumPathsN(f.Blocks[0], 0, 200000, 1, func(p *core.Path) {
		ret, ok := p.End.(*ssa.Return)
		if !ok || ret.Parent() != f || bad != "" || !pathNil(p, ret.Results[len(ret.Results)-1]) {
			return
		}
		paths++
		cur := map[string]string{"LeaseTimeout": "init:LeaseTimeout", "LeaseRenewInterval": "init:LeaseRenewInterval"}
		loadVal := map[ssa.Value]string{}
		consts := map[string]int64{}
		var term func(v ssa.Value) string
		term = func(v ssa.Value) string {
			v = p.Resolve(v)
			if t, ok := loadVal[v]; ok {
				return t
			}
			if k, ok := core.ConstInt(v); ok {
				t := "c:" + strconv.FormatInt(k, 10)
				consts[t] = k
				return t
			}
			switch x := v.(type) {
			case *ssa.Convert:
				return term(x.X)
			case *ssa.ChangeType:
				return term(x.X)
			case *ssa.BinOp:
				if x.Op == token.QUO && isConstInt(3)(x.Y) {
					return "third(" + term(x.X) + ")"
				}
			}
			return fmt.Sprintf("v:%p", v)
		}
		var facts []fact
		ci := 0
		for _, in := range p.Instrs {
			switch x := in.(type) {
			case *ssa.UnOp:
				if n, ok := recvField(p, x); ok {
					loadVal[x] = cur[n]
				}
			case *ssa.Store:
				if fa, ok := x.Addr.(*ssa.FieldAddr); ok && strings.HasSuffix(core.TypeName(fa.X.Type()), "ClusterConfig") {
					if n := core.FieldName(fa); n == "LeaseTimeout" || n == "LeaseRenewInterval" {
						cur[n] = term(x.Val)
					}
				}
			case *ssa.If:
				for ci < len(p.Conds) && p.Conds[ci].If != x {
					ci++
				}
				if ci < len(p.Conds) {
					if c, ok := core.FactCmp(p.Conds[ci]); ok {
						facts = append(facts, fact{c.Op, term(c.X), term(c.Y)})
					}
					ci++
				}
			}
		}
		R, L := cur["LeaseRenewInterval"], cur["LeaseTimeout"]
		third := "third(" + L + ")"
		le := func(a, b string) bool { // a <= b follows from one fact
			if a == b {
				return true
			}
			for _, fc := range facts {
				switch {
				case (fc.op == token.LEQ || fc.op == token.LSS || fc.op == token.EQL) && fc.x == a && fc.y == b:
					return true
				case (fc.op == token.GEQ || fc.op == token.GTR || fc.op == token.EQL) && fc.x == b && fc.y == a:
					return true
				}
			}
			return false
		}
		atLeast := func(v string, k int64) bool { // v >= k
			if c, ok := consts[v]; ok {
				return c >= k
			}
			for _, fc := range facts {
				if fc.x == v {
					if c, ok := consts[fc.y]; ok && ((fc.op == token.GEQ && c >= k) || (fc.op == token.GTR && c+1 >= k) || (fc.op == token.EQL && c >= k)) {
						return true
					}
				}
				if fc.y == v {
					if c, ok := consts[fc.x]; ok && ((fc.op == token.LEQ && c >= k) || (fc.op == token.LSS && c+1 >= k)) {
						return true
					}
				}
			}
			return false
		}
		ok = le(R, third)
		if !ok {
			if c, isC := consts[R]; isC && c >= 0 && atLeast(L, 3*c) {
				ok = true // a constant floor: k <= lease/3 because lease >= 3k
			}
		}
		if !ok {
			bad, badPos = "fix can return with a renew interval that is not known to be <= lease timeout / 3 (renew="+R+", lease="+L+"): a renew interval above a third of the lease lets the lease lapse between renewals, and a second instance is granted leadership", ret.Pos()
		}
	})
	if !okEnum {
		r.Undecided("ClusterConfig.fix/clamp", f.Pos(), "too many paths")
		return
	}
	r.Check(bad == "" && paths > 0, "ClusterConfig.fix/clamp", badPos, "%s (successful paths=%d)", bad, paths)
	if bad == "" && paths > 0 {
		r.OK("ClusterConfig.fix/clamp-last", f.Pos(), "decided on the values held at return")
	}
}

// ---------------------------------------------------------------- R15.7 one lease per shard

// ruleElectionKey: instances exclude each other only if they campaign on the
// same key. For one source shard the key must be a function of what all
// instances agree on (namespace prefix, group name, the shard's master
// address) and of nothing instance-specific (the node this instance happens
// to read from, its own listen address).
func ruleElectionKey(w *core.World, r *core.Report) {
	f := fn(w, r, "(*cmd.SyncerCmd).runCluster")
	if f == nil {
		return
	}
	n := 0
	for _, g := range core.DeepFuncs(f) {
		for _, s := range core.Sites(g, false) {
			if s.Method != "NewElection" && !strings.HasSuffix(s.Name, ".NewElection") {
				continue
			}
			n++
			a := s.Args()
			if len(a) < 2 {
				r.Undecided("runCluster/election-key", s.Pos(), "unexpected NewElection signature")
				continue
			}
			key := a[1]
			fromMaster, instanceSpecific := false, ""
			roots := []ssa.Value{key}
			if c, ok := core.Unwrap(key).(*ssa.Call); ok && core.ResolveCall(c).Name == "fmt.Sprintf" && len(c.Call.Args) == 2 {
				if el, ok := core.VariadicElems(c.Call.Args[1]); ok {
					roots = el
				}
			}
			for _, root := range roots {
				core.Walk(root, func(x ssa.Value) bool {
					if nm, base := loadedFieldName(x); nm == "Address" && base != nil {
						if bn, _ := loadedFieldName(base); bn == "Master" {
							fromMaster = true
						}
					}
					if c, ok := x.(*ssa.Call); ok {
						cn := core.ResolveCall(c).Name
						if strings.HasSuffix(cn, "RedisConfig).Address") || strings.HasSuffix(cn, ".Address") && !strings.Contains(cn, "Sprintf") {
							instanceSpecific = cn
						}
					}
					if nm, _ := loadedFieldName(x); nm == "ListenPeer" || nm == "Listen" {
						instanceSpecific = "server listen address"
					}
					return true
				})
			}
			r.Check(fromMaster && instanceSpecific == "", "runCluster/election-key", s.Pos(), "the lease key of a shard must be built from the shard master's address (found: %v) and from nothing that differs between instances (found: %q): two instances reading different nodes of one shard would otherwise hold two leases", fromMaster, instanceSpecific)
		}
	}
	if n == 0 {
		r.Fail("runCluster/election-key", f.Pos(), "no election is created for a shard")
	}
}

// loadedFieldName: for a load of X.f (or a Field of a struct value) returns f and X's address/value.
func loadedFieldName(v ssa.Value) (string, ssa.Value) {
	switch x := v.(type) {
	case *ssa.Field:
		return core.FieldName(x), x.X
	case *ssa.FieldAddr:
		return core.FieldName(x), x.X
	case *ssa.UnOp:
		if x.Op == token.MUL {
			if fa, ok := x.X.(*ssa.FieldAddr); ok {
				return core.FieldName(fa), fa.X
			}
		}
	}
	return "", nil
}

// ---------------------------------------------------------------- R15.8 / R15.9 what the election is parameterised with

// ruleElectionIdentity: the scripts tell holders apart by the stored id only
// (R15.1). The id an instance campaigns with must be the address it advertises
// to its peers (Server.ListenPeer), which differs between instances; a bind
// address (Server.Listen, typically 0.0.0.0:port everywhere) makes every
// contender "the owner".
func ruleElectionIdentity(w *core.World, r *core.Report) {
	f := fn(w, r, "(*cmd.SyncerCmd).runCluster")
	if f == nil {
		return
	}
	n := 0
	// wherever the command package creates an election (the per-shard loop body may be a closure or a method)
	var scope []*ssa.Function
	inScope := map[*ssa.Function]bool{}
	for _, h := range w.FuncsIn("cmd") {
		for _, d := range core.DeepFuncs(h) {
			if !inScope[d] {
				inScope[d] = true
				scope = append(scope, d)
			}
		}
	}
	for _, g := range scope {
		for _, s := range core.Sites(g, false) {
			if s.Instr.Parent() != g || (s.Method != "NewElection" && !strings.HasSuffix(s.Name, ".NewElection")) {
				continue
			}
			n++
			a := s.Common().Args
			id := a[len(a)-1]
			ok := core.DependsOn(id, func(v ssa.Value) bool { return fieldNameOfLoad(v) == "ListenPeer" })
			r.Check(ok, "runCluster/election-identity", s.Pos(), "the identity an instance campaigns with does not derive from the address it advertises to its peers (Server.ListenPeer): instances that share a bind address present the same id, and the compare-and-set script grants the lease to each of them")
		}
	}
	if n == 0 {
		r.Fail("runCluster/election-identity", f.Pos(), "no election is created")
	}
}

// ruleLeaseTtlUnit: the Redis election writes the lease with SET … EX <ttl> /
// EXPIRE <ttl>: seconds. The ttl handed to the cluster client must be the
// configured lease timeout in seconds; any other unit makes the lease outlive a
// dead holder by orders of magnitude (or expire between renewals).
// leaseScriptUnits: the expiry options the election scripts use (filled while the scripts are checked).
var leaseScriptUnits = map[string]bool{}

func ruleLeaseTtlUnit(w *core.World, r *core.Report) {
	n := 0
	for _, g := range w.FuncsIn("cmd") {
		for _, s := range core.SitesNamed(g, false, "pkg/cluster.NewRedisCluster") {
			if s.Instr.Parent() != g {
				continue
			}
			n++
			a := s.Common().Args
			ttl := a[len(a)-1]
			ok := false
			// the unit the scripts use the ttl in (read from the Lua text by R15.1/R15.2): EX/EXPIRE seconds, PX/PEXPIRE milliseconds
			wantDiv, wantMethod := int64(1000000000), "(time.Duration).Seconds"
			if leaseScriptUnits["PX"] && !leaseScriptUnits["EX"] {
				wantDiv, wantMethod = 1000000, "(time.Duration).Milliseconds"
			}
			core.Walk(ttl, func(v ssa.Value) bool {
				switch x := v.(type) {
				case *ssa.BinOp:
					// LeaseTimeout / time.Second
					if x.Op == token.QUO && fieldNameOfLoad(core.Unwrap(x.X)) == "LeaseTimeout" {
						if k, isK := core.ConstInt(x.Y); isK && k == wantDiv {
							ok = true
						}
					}
				case *ssa.Call:
					if core.ResolveCall(x).Name == wantMethod && len(x.Call.Args) == 1 && fieldNameOfLoad(core.Unwrap(x.Call.Args[0])) == "LeaseTimeout" {
						ok = true
					}
				}
				return true
			})
			if leaseScriptUnits["PX"] && leaseScriptUnits["EX"] {
				ok = false // the scripts themselves disagree on the unit
			}
			r.Check(ok, shortName(core.FuncName(outermost(g)))+"/lease-ttl-in-seconds", s.Pos(), "the ttl given to the Redis election is not the configured lease timeout in seconds (the scripts use it with EX / EXPIRE)")
		}
	}
	if n == 0 {
		r.OK("lease-ttl-in-seconds", token.NoPos, "no Redis election configured in this build")
	}
	_ = n
}

// ---------------------------------------------------------------- R15.10 a request and its reply are one critical section

// ruleRequestReplyAtomic: one instance shares a single stand-alone connection
// among all its elections and its registry keep-alive. RedisConn.Do must hold the
// connection's guard from before the request is written until its reply has been
// read. Built from the exported SendAndFlush + Receive (each locking on its own)
// the guard is free in between, two callers interleave and read each other's
// replies: an instance is told "leader" for a lease another instance holds.
func ruleRequestReplyAtomic(w *core.World, r *core.Report) {
	f := fn(w, r, "(*pkg/redis/client/conn.RedisConn).Do")
	if f == nil {
		return
	}
	ls := core.Locksets(f)
	writes := func(g *ssa.Function) bool { return false }
	_ = writes
	// the functions of the connection that touch the wire, and whether they take the guard themselves
	wire := map[*ssa.Function]map[string]bool{}
	mark := func(g *ssa.Function, k string) bool {
		if wire[g] == nil {
			wire[g] = map[string]bool{}
		}
		if wire[g][k] {
			return false
		}
		wire[g][k] = true
		return true
	}
	locks := map[*ssa.Function]bool{}
	fs := w.FuncsIn("pkg/redis/client/conn")
	for _, g := range fs {
		if !strings.HasPrefix(core.FuncName(g), "(*pkg/redis/client/conn.RedisConn).") {
			continue
		}
		for _, s := range core.Sites(g, false) {
			if s.Instr.Parent() != g {
				continue
			}
			switch {
			case strings.Contains(s.Name, "proto.Writer).") || s.Name == "(*bufio.Writer).Flush":
				mark(g, "send")
			case strings.Contains(s.Name, "proto.Reader).Read"):
				mark(g, "receive")
			case s.Name == "(*sync.Mutex).Lock" || s.Name == "(*sync.RWMutex).Lock":
				if fa, ok := s.Common().Args[0].(*ssa.FieldAddr); ok && core.FieldName(fa) == "guard" {
					locks[g] = true
				}
			}
		}
	}
	for changed := true; changed; {
		changed = false
		for _, g := range fs {
			for _, s := range core.Sites(g, false) {
				if s.Callee == nil || s.Instr.Parent() != g {
					continue
				}
				for k := range wire[s.Callee] {
					if mark(g, k) {
						changed = true
					}
				}
				if locks[s.Callee] && !locks[g] && strings.HasPrefix(core.FuncName(g), "(*pkg/redis/client/conn.RedisConn).") {
					// reached only for reporting: a caller of a locking function
				}
			}
		}
	}
	sends, recvs := 0, 0
	bad := ""
	var pos token.Pos = f.Pos()
	for _, s := range core.Sites(f, false) {
		if s.Callee == nil || s.Instr.Parent() != f {
			continue
		}
		kinds, isWire := wire[s.Callee]
		if !isWire || len(kinds) == 0 {
			continue
		}
		kind := ""
		if kinds["send"] {
			sends++
			kind = "send"
		}
		if kinds["receive"] {
			recvs++
			if kind != "" {
				kind += " and receive"
			} else {
				kind = "receive"
			}
		}
		held := ls[s.Instr.(ssa.Instruction)]["p:#0.guard"].Mode >= core.LockW
		if !held {
			bad, pos = "the "+kind+" step of Do runs without Do itself holding the connection's guard", s.Pos()
		}
		if locks[s.Callee] {
			bad, pos = "the "+kind+" step of Do goes through "+s.Method+", which takes the guard for itself: the guard is free between the request and its reply, and callers that share the connection read each other's replies", s.Pos()
		}
	}
	r.Check(bad == "" && sends > 0 && recvs > 0, "RedisConn.Do/request-reply-atomic", pos, "%s (send steps=%d, receive steps=%d)", bad, sends, recvs)
}

// ---------------------------------------------------------------- R15.11 every instance reaches the same lease store

// ruleOneLeaseStore: with Redis leases, "at most one leader" holds only if all
// instances run the compare-and-set scripts against the same server. The cluster
// client of the command package is built with client.NewRedis from the input's
// configuration; for a stand-alone configuration that must be a connection to
// that configuration exactly as given (its Address()), attempted once, whose
// failure is reported. A constructor that tries the listed addresses in turn
// gives an instance that cannot reach the first server a lease store of its own:
// the key is absent there, and it is told leader of every shard.
func ruleOneLeaseStore(w *core.World, r *core.Report) {
	f := fn(w, r, "pkg/redis/client.NewRedis")
	if f == nil || len(f.Params) < 1 {
		return
	}
	cfg := f.Params[0]
	n := 0
	home := f
	// the constructor may be picked as a function value by a helper (a dialer per kind of deployment) and called
	// with the configuration: the stand-alone dialer is then judged in NewRedis' place
	if len(core.SitesNamed(f, false, "pkg/redis/client/conn.NewRedisConn")) == 0 {
		for _, in := range core.OwnInstrs(f) {
			c, ok := in.(*ssa.Call)
			if !ok || c.Call.IsInvoke() || c.Call.StaticCallee() != nil || len(c.Call.Args) != 1 {
				continue
			}
			if !paramOrItsSpill(c.Call.Args[0], cfg) {
				continue
			}
			sel, ok := c.Call.Value.(*ssa.Call)
			if !ok || sel.Call.StaticCallee() == nil {
				continue
			}
			for _, in2 := range core.OwnInstrs(sel.Call.StaticCallee()) {
				ret, isRet := in2.(*ssa.Return)
				if !isRet || len(ret.Results) != 1 {
					continue
				}
				v := ret.Results[0]
				if ct, isCt := v.(*ssa.ChangeType); isCt {
					v = ct.X
				}
				if g, isFn := v.(*ssa.Function); isFn && len(g.Params) == 1 && len(core.SitesNamed(g, false, "pkg/redis/client/conn.NewRedisConn")) > 0 && failureReturned(f, core.ResolveCall(c)) {
					home, cfg = g, g.Params[0]
				}
			}
		}
	}
	f = home
	for _, s := range core.SitesNamed(f, false, "pkg/redis/client/conn.NewRedisConn") {
		if s.Instr.Parent() != f {
			continue
		}
		n++
		a := s.Common().Args
		same := false
		if len(a) >= 1 {
			v := core.Unwrap(a[0])
			if v == ssa.Value(cfg) {
				same = true
			} else if ld, ok := v.(*ssa.UnOp); ok && ld.Op == token.MUL {
				// the parameter's spill: nothing but the parameter is ever stored into it, no field of it is written
				if al, isA := ld.X.(*ssa.Alloc); isA {
					sts := core.CellStores(al)
					same = len(sts) == 1 && sts[0].Val == ssa.Value(cfg)
					if refs := al.Referrers(); refs != nil {
						for _, ref := range *refs {
							if fa, isFa := ref.(*ssa.FieldAddr); isFa {
								for _, r2 := range *fa.Referrers() {
									if st, isSt := r2.(*ssa.Store); isSt && st.Addr == ssa.Value(fa) {
										same = false
									}
								}
							}
						}
					}
				}
			}
		}
		once := core.LoopHeadOf(s.Instr.Block()) == nil
		reported := failureReturned(f, s)
		r.Check(same && once && reported, "client.NewRedis/standalone-as-configured", s.Pos(), "a stand-alone client must be the connection to the configuration as given (unchanged: %v), attempted once (%v), with a failure returned (%v): a fall-back to another listed address gives an instance its own lease store", same, once, reported)
	}
	if n == 0 {
		r.Fail("client.NewRedis/standalone-as-configured", f.Pos(), "no stand-alone connection is made")
	}
}

// paramOrItsSpill: v is the parameter, or a load of the local copy nothing but the parameter is stored into and
// no field of which is written.
func paramOrItsSpill(v ssa.Value, par *ssa.Parameter) bool {
	v = core.Unwrap(v)
	if v == ssa.Value(par) {
		return true
	}
	ld, ok := v.(*ssa.UnOp)
	if !ok || ld.Op != token.MUL {
		return false
	}
	al, ok := ld.X.(*ssa.Alloc)
	if !ok {
		return false
	}
	sts := core.CellStores(al)
	if len(sts) != 1 || sts[0].Val != ssa.Value(par) {
		return false
	}
	if refs := al.Referrers(); refs != nil {
		for _, ref := range *refs {
			if fa, isFa := ref.(*ssa.FieldAddr); isFa {
				for _, r2 := range *fa.Referrers() {
					if st, isSt := r2.(*ssa.Store); isSt && st.Addr == ssa.Value(fa) {
						return false
					}
				}
			}
		}
	}
	return true
}
