package rules

import (
	"fmt"
	"go/token"
	"go/types"
	"os"
	"sort"
	"strings"
	"time"

	"gunyucheck/core"

	"golang.org/x/tools/go/ssa"
)

func init() {
	// (the files of the package are initialised in name order: c14.go and c17.go have set their texts)
	core.Explanations["C14"] += " (R14.14) in every function that hands a connection to a routine that walks the databases of a stand-alone target, no database-dependent command is issued on that connection before a database is selected on it again (the start-up recovery reads frontier, journal and latest records in database 0, where the senders write them)."
	core.Explanations["C17"] += " (R17.13) a mode migration reads the root checkpoint of the old namespace before that namespace is deleted and raises the seed of the new one to it when the root is ahead (the position carried over is the one the start-up reader would have answered)."
}

// ---------------------------------------------------------------- R14.14 no keyed command in a database nobody chose

// A stand-alone target has numbered databases and a connection is in exactly
// one of them. Some routines walk the databases: they SELECT one database after
// the other (GetCheckpoint, DelCheckpoint, DelStaleCheckpoint visit every
// database INFO keyspace lists, in map order) and return with the connection in
// whichever they visited last. A caller that goes on using that connection for
// a keyed command reads or writes in an arbitrary database. For the
// bidirectional recovery state (written through fresh connections, database 0)
// this means: the frontier / journal / latest look-ups of the start-up recovery
// find nothing on some restarts, the resume point falls back to the root
// checkpoint and alternates from restart to restart (W36).
//
// ruleDatabaseAfterWalk decides, for every function of the module that hands a
// connection to such a routine: on no path is a database-dependent command
// issued on that connection before a database was selected on it again
// (redis.SelectDB by the function itself, or a callee that selects before its
// first command). Which routines walk, which callees select first and which
// need the caller's database is derived from their bodies (connSummaries), not
// from their names; the only primitives are redis.SelectDB / the SELECT command
// and the command methods of client.Redis.
//
// One state is accepted although no database was selected: the walk reported
// that it found nothing (its database result is negative on the path) — there
// is no database to go back to (R17.2 accepts the same in UpdateCheckpoint).

const selectDBName = "pkg/redis.SelectDB"

func isConnType(t types.Type) bool {
	n, ok := t.(*types.Named)
	if !ok || n.Obj() == nil || n.Obj().Pkg() == nil {
		return false
	}
	if _, isIface := n.Underlying().(*types.Interface); !isIface {
		return false
	}
	return n.Obj().Name() == "Redis" && strings.HasSuffix(n.Obj().Pkg().Path(), "pkg/redis/client")
}

// commands that do not depend on the selected database
var dbIndependentCmds = map[string]bool{"info": true, "ping": true, "cluster": true, "role": true, "config": true,
	"client": true, "auth": true, "echo": true, "time": true, "hello": true, "readonly": true, "readwrite": true}

type connUse int

const (
	connNeutral connUse = iota // no command (Close, RedisType, Flush, Receive…) or a database-independent one
	connSelect                 // SELECT
	connCommand                // a command whose effect depends on the selected database
)

// classifyConnMethod: what an invoke of a client.Redis method does with the connection's database.
func classifyConnMethod(s core.Site) (use connUse, constDB bool) {
	switch s.Method {
	case "Do", "Send", "SendAndFlush":
		cmd, ok := core.CmdName(s)
		if !ok {
			return connCommand, false
		}
		if cmd == "select" {
			els, okE := core.CmdArgs(s)
			if okE && len(els) == 1 {
				_, isK := core.ConstInt(els[0])
				return connSelect, isK
			}
			return connSelect, false
		}
		if dbIndependentCmds[cmd] {
			return connNeutral, false
		}
		return connCommand, false
	case "IterateNodes":
		a := s.Args()
		if len(a) >= 2 {
			if cmd, ok := core.ConstString(a[1]); ok && dbIndependentCmds[strings.ToLower(cmd)] {
				return connNeutral, false
			}
		}
		return connCommand, false
	case "NewBatcher", "NewTxnBatcher":
		return connCommand, false // the batch it opens carries keyed commands
	}
	return connNeutral, false
}

type connKey struct {
	f *ssa.Function
	i int
}

type connEvent struct {
	in      ssa.Instruction
	reset   bool // a database is selected before anything else happens (SelectDB, SELECT, a callee that selects first)
	constDB bool // … and it is a constant one
	need    bool // a database-dependent command is issued in whatever database the connection is in
	wander  bool // the connection is left in a database the caller did not name
	onExit  bool // a deferred selection of a constant database: it runs on every way out that follows it
}

// connSummaries: per function and connection parameter, what the function does with the database of the connection.
type connSummaries struct {
	events map[connKey][]connEvent
	first  map[connKey]int // 0 = not computed, 1 = computing, 2 = false, 3 = true   (selectsOnEntry)
	needs  map[connKey]int
	leaves map[connKey]int
}

func newConnSummaries() *connSummaries {
	return &connSummaries{events: map[connKey][]connEvent{}, first: map[connKey]int{}, needs: map[connKey]int{}, leaves: map[connKey]int{}}
}

func isDeferred(in ssa.Instruction) bool {
	_, d := in.(*ssa.Defer)
	return d
}

// eventsOf lists what h does to the database of its connection parameter j, in instruction order.
func (a *connSummaries) eventsOf(h *ssa.Function, j int) []connEvent {
	k := connKey{h, j}
	if ev, ok := a.events[k]; ok {
		return ev
	}
	a.events[k] = nil
	var out []connEvent
	par := ssa.Value(h.Params[j])
	is := func(v ssa.Value) bool { return core.Unwrap(v) == par }
	for _, in := range core.Instrs(h) {
		ci, ok := in.(ssa.CallInstruction)
		if !ok {
			continue
		}
		s := core.ResolveCall(ci)
		com := ci.Common()
		if isDeferred(in) {
			if s.Name == selectDBName && len(com.Args) == 2 && is(com.Args[0]) {
				if _, isK := core.ConstInt(com.Args[1]); isK {
					out = append(out, connEvent{in: in, onExit: true})
				}
			}
			continue
		}
		if s.Name == selectDBName && len(com.Args) == 2 && is(com.Args[0]) {
			_, isK := core.ConstInt(com.Args[1])
			out = append(out, connEvent{in: in, reset: true, constDB: isK, wander: !isK})
			continue
		}
		if com.IsInvoke() {
			if !is(com.Value) {
				continue
			}
			switch use, isK := classifyConnMethod(s); use {
			case connSelect:
				out = append(out, connEvent{in: in, reset: true, constDB: isK, wander: !isK})
			case connCommand:
				out = append(out, connEvent{in: in, need: true})
			}
			continue
		}
		for idx, arg := range com.Args {
			if !is(arg) {
				continue
			}
			g := s.Callee
			if g != nil {
				if c, isCall := in.(*ssa.Call); isCall && core.ExpandedInto(g) == c {
					continue // read as part of h: its instructions are in the list
				}
			}
			if g == nil || len(g.Blocks) == 0 || idx >= len(g.Params) {
				out = append(out, connEvent{in: in, need: true}) // handed to code the analysis does not see
				continue
			}
			ev := connEvent{in: in}
			ev.reset = a.selectsOnEntry(g, idx)
			ev.need = a.needsDB(g, idx)
			ev.wander = a.leavesUnspecified(g, idx)
			ev.constDB = ev.reset && !ev.wander
			if ev.reset || ev.need || ev.wander {
				out = append(out, ev)
			}
		}
	}
	a.events[k] = out
	return out
}

// selectsOnEntry: every return of h is preceded by a selection of a database on the connection.
func (a *connSummaries) selectsOnEntry(h *ssa.Function, j int) bool {
	k := connKey{h, j}
	switch a.first[k] {
	case 1, 2:
		return false
	case 3:
		return true
	}
	a.first[k] = 1
	res := true
	n := 0
	for _, in := range core.OwnInstrs(h) {
		ret, isRet := in.(*ssa.Return)
		if !isRet {
			continue
		}
		n++
		covered := false
		for _, ev := range a.eventsOf(h, j) {
			if ev.reset && core.Dominates(ev.in, ret) {
				covered = true
			}
		}
		if !covered {
			res = false
		}
	}
	if n == 0 {
		res = false
	}
	a.first[k] = 2
	if res {
		a.first[k] = 3
	}
	return res
}

// needsDB: h issues a database-dependent command on the connection that no selection of its own precedes.
func (a *connSummaries) needsDB(h *ssa.Function, j int) bool {
	k := connKey{h, j}
	switch a.needs[k] {
	case 1, 2:
		return false
	case 3:
		return true
	}
	a.needs[k] = 1
	res := false
	evs := a.eventsOf(h, j)
	for _, u := range evs {
		if !u.need {
			continue
		}
		covered := false
		for _, ev := range evs {
			if ev.reset && ev.in != u.in && core.Dominates(ev.in, u.in) {
				covered = true
			}
		}
		if !covered {
			res = true
		}
	}
	a.needs[k] = 2
	if res {
		a.needs[k] = 3
	}
	return res
}

// leavesUnspecified: h may return with the connection in a database its caller did not name (a database
// chosen by a value, not a constant), no constant selection following on the way out.
func (a *connSummaries) leavesUnspecified(h *ssa.Function, j int) bool {
	k := connKey{h, j}
	switch a.leaves[k] {
	case 1, 2:
		return false
	case 3:
		return true
	}
	a.leaves[k] = 1
	res := false
	evs := a.eventsOf(h, j)
	isConstReset := func(in ssa.Instruction) bool {
		for _, ev := range evs {
			if ev.in == in && ev.constDB {
				return true
			}
		}
		return false
	}
	isRet := func(in ssa.Instruction) bool { _, ok := in.(*ssa.Return); return ok }
	for _, ev := range evs {
		if !ev.wander {
			continue
		}
		restored := false
		for _, d := range evs {
			if d.onExit && core.Dominates(d.in, ev.in) {
				restored = true // the function puts the connection back into a constant database when it returns
			}
		}
		if restored {
			continue
		}
		if core.PathFrom(ev.in.Parent(), ev.in, isRet, isConstReset) != nil {
			res = true
		}
	}
	a.leaves[k] = 2
	if res {
		a.leaves[k] = 3
	}
	return res
}

// walkDbResult: the walk reported "no database holds a record" on this path (a negative database result).
func walkFoundNothing(p *core.Path, walk ssa.Value) bool {
	if walk == nil {
		return false
	}
	isDb := func(v ssa.Value) bool {
		e, ok := core.Unwrap(v).(*ssa.Extract)
		if !ok || e.Tuple != walk {
			return false
		}
		b, isB := e.Type().Underlying().(*types.Basic)
		return isB && b.Info()&types.IsInteger != 0
	}
	return p.Holds(token.LSS, isDb, isConstInt(0)) || p.Holds(token.LEQ, isDb, isConstInt(-1)) || p.Holds(token.EQL, isDb, isConstInt(-1))
}

func ruleDatabaseAfterWalk(w *core.World, r *core.Report) {
	a := newConnSummaries()
	type verdict struct {
		bad       string
		pos       token.Pos
		undecided bool
		walks     int
	}
	res := map[string]*verdict{}
	var order []string
	for _, g := range w.Funcs() {
		if len(g.Blocks) == 0 || core.ExpandedInto(g) != nil {
			continue
		}
		// does g hand a connection to a routine that may leave it in an unspecified database?
		hands := false
		for _, in := range core.Instrs(g) {
			ci, ok := in.(ssa.CallInstruction)
			if !ok || isDeferred(in) {
				continue
			}
			s := core.ResolveCall(ci)
			if s.Callee == nil || len(s.Callee.Blocks) == 0 || ci.Common().IsInvoke() || s.Name == selectDBName {
				continue // (a selection by the function itself names the database)
			}
			for idx, arg := range ci.Common().Args {
				if idx < len(s.Callee.Params) && isConnType(arg.Type()) && isConnType(s.Callee.Params[idx].Type()) && a.leavesUnspecified(s.Callee, idx) {
					hands = true
				}
			}
		}
		if !hands {
			continue
		}
		name := shortName(core.FuncName(outermost(g))) + "/database-after-walk"
		v := res[name]
		if v == nil {
			v = &verdict{pos: g.Pos()}
			res[name] = v
			order = append(order, name)
		}
		check := func(p *core.Path) {
			if v.bad != "" {
				return
			}
			canon := func(x ssa.Value) ssa.Value { return core.Unwrap(p.Resolve(x)) }
			left := map[ssa.Value]core.Site{} // connection -> the walk that left it in an unspecified database
			use := func(c ssa.Value, what string, pos token.Pos) {
				wk, un := left[c]
				if !un || walkFoundNothing(p, wk.Value()) {
					return
				}
				v.bad = what + " on a connection that " + shortCallee(wk) + " has left in whichever database of a stand-alone target it visited last, and no database was selected on that connection in between (redis.SelectDB, as UpdateCheckpoint does after GetCheckpoint): the command reads or writes in an arbitrary database. The bidirectional recovery state is written through fresh connections (database 0): looked up elsewhere it is not found, the resume point falls back to the root checkpoint on some restarts and moves backwards, units are applied twice"
				v.pos = pos
			}
			// a selection counts until the path takes the failure side of the test of its error (the facts are
			// read in path order: the same call fails in a later iteration without undoing the earlier one)
			type pendingSel struct {
				call ssa.Value
				conn ssa.Value
				prev core.Site
			}
			var pend []pendingSel
			fi := 0
			for k, in := range p.Instrs {
				if iff, isIf := in.(*ssa.If); isIf {
					for fi < len(p.Conds) && p.Conds[fi].If != iff {
						fi++
					}
					if fi < len(p.Conds) {
						if c, isCmp := core.FactCmp(p.Conds[fi]); isCmp && c.Op == token.NEQ {
							x, y := p.Resolve(c.X), p.Resolve(c.Y)
							for _, ps := range pend {
								is := core.ErrOf(ps.call)
								if (core.IsNilConst(y) && is(x)) || (core.IsNilConst(x) && is(y)) {
									left[ps.conn] = ps.prev
								}
							}
						}
						fi++
					}
					continue
				}
				ci, ok := in.(ssa.CallInstruction)
				if !ok || isDeferred(in) {
					continue
				}
				if cv, isCall := in.(*ssa.Call); isCall {
					// the call that produces the connection runs (again): what a walk did to an earlier one is gone
					for c := range left {
						if e, isE := c.(*ssa.Extract); c == ssa.Value(cv) || (isE && e.Tuple == ssa.Value(cv)) {
							delete(left, c)
						}
					}
				}
				s := core.ResolveCall(ci)
				com := ci.Common()
				if s.Callee != nil && len(s.Callee.Blocks) > 0 && k+1 < len(p.Instrs) && p.Instrs[k+1].Block() == s.Callee.Blocks[0] {
					continue // stepped into on this path: its own events follow
				}
				if s.Name == selectDBName && len(com.Args) == 2 {
					c := canon(com.Args[0])
					pend = nil
					if prev, un := left[c]; un && s.Value() != nil {
						pend = append(pend, pendingSel{s.Value(), c, prev})
					}
					delete(left, c)
					continue
				}
				if com.IsInvoke() {
					if !isConnType(com.Value.Type()) {
						continue
					}
					c := canon(com.Value)
					switch u, _ := classifyConnMethod(s); u {
					case connSelect:
						delete(left, c)
					case connCommand:
						cmd, _ := core.CmdName(s)
						use(c, "the command "+s.Method+"("+cmd+") is issued", s.Pos())
					}
					continue
				}
				for idx, arg := range com.Args {
					if !isConnType(arg.Type()) {
						continue
					}
					c := canon(arg)
					h := s.Callee
					if h == nil || len(h.Blocks) == 0 || idx >= len(h.Params) {
						use(c, "the connection is handed to "+s.Name, s.Pos())
						continue
					}
					if a.needsDB(h, idx) {
						use(c, shortCallee(s)+" issues its commands", s.Pos())
					}
					switch {
					case a.leavesUnspecified(h, idx):
						left[c] = s
						v.walks++
					case a.selectsOnEntry(h, idx):
						delete(left, c)
					}
				}
			}
		}
		t0 := time.Now()
		np := 0
		live := liveBlocks(g, func(in ssa.Instruction) bool {
			ci, ok := in.(ssa.CallInstruction)
			if !ok || isDeferred(in) {
				return false
			}
			if ci.Common().IsInvoke() && isConnType(ci.Common().Value.Type()) {
				return true
			}
			for _, arg := range ci.Common().Args {
				if isConnType(arg.Type()) {
					return true
				}
			}
			return false
		})
		stop := func(b *ssa.BasicBlock) bool { return !live[b] }
		okEnum := core.EnumPathsStop(g.Blocks[0], 0, 200000, 3, stop, func(p *core.Path) { np++; check(p) })
		if os.Getenv("GC_DEBUG") == "R14.14" {
			fmt.Fprintln(os.Stderr, "DEBUG R14.14", core.FuncName(g), "paths", np, okEnum, time.Since(t0))
		}
		if !okEnum {
			v.bad, v.walks = "", 0
			okEnum = core.EnumPathsStop(g.Blocks[0], 0, 200000, 2, stop, check)
		}
		if !okEnum {
			v.undecided = true
		}
	}
	sort.Strings(order)
	for _, name := range order {
		v := res[name]
		switch {
		case v.bad != "":
			r.Fail(name, v.pos, "%s", v.bad)
		case v.undecided:
			r.Undecided(name, v.pos, "too many paths to follow the connection's database")
		default:
			r.Check(v.walks > 0, name, v.pos, "no path hands the connection to the routine that walks the databases")
		}
	}
}

// ---------------------------------------------------------------- R17.13 a mode migration carries over the greater of mode state and root checkpoint

// ruleMigrationJoinsRoot: the resume reader (bisyncStartPoint) answers the root
// checkpoint of the namespace when it is ahead of the mode state (latest
// records / frontier + journal) — a completed full sync writes only the root.
// Switching the recovery format seeds a new namespace, repoints the index and
// deletes the old namespace, its root key included. The position carried over
// must therefore be the greater of the two: a migration that looks at the mode
// state alone writes the older position and destroys the only record of the
// newer one (W35). Decided on the paths of the migrating function:
//
//	(a) every path that seeds the new namespace from a seed has read the root
//	    checkpoint of the *old* name (checkpoint.GetCheckpoint on the name the
//	    index gave) and has seen that read succeed;
//	(b) on some path the offset read there reaches the seed handed on (stored
//	    into the seed's offset, or the seed is built from it);
//	(c) wherever it does, the path has established root offset > seed offset:
//	    the join is a maximum, it never lowers the seed.
func ruleMigrationJoinsRoot(w *core.World, r *core.Report) {
	f := fn(w, r, "(*syncer.syncer).resolveBisyncCheckpointNameWithClient")
	if f == nil {
		return
	}
	const construct = "resolveBisyncCheckpointNameWithClient/seed-joins-root"
	isOldName := isResultOf("pkg/redis/checkpoint.GetCheckpointHash", 0)
	bad := ""
	var pos token.Pos = f.Pos()
	seeded, raised := 0, 0
	okEnum := core.EnumPaths(f.Blocks[0], 0, 200000, func(p *core.Path) {
		if bad != "" {
			return
		}
		sites := pathSites(p)
		for si, s := range sites {
			if !strings.HasSuffix(s.Name, "syncer).seedBisyncNamespace") {
				continue
			}
			var seedArg ssa.Value
			for _, a := range s.Args() {
				if strings.HasSuffix(core.TypeName(a.Type()), "BisyncNamespaceSeed") {
					seedArg = a
				}
			}
			if seedArg == nil {
				bad, pos = "the seed handed to seedBisyncNamespace was not found", s.Pos()
				return
			}
			if pathNil(p, seedArg) {
				continue // nothing is carried over on this path
			}
			seeded++
			seedVal := core.Unwrap(p.Resolve(seedArg))
			// (a) the read of the old root
			var read core.Site
			for _, g := range sites[:si] {
				if g.Name != "pkg/redis/checkpoint.GetCheckpoint" {
					continue
				}
				if a := g.Args(); len(a) == 3 && isOldName(p.Resolve(a[1])) {
					read = g
				}
			}
			if read.Instr == nil {
				bad, pos = "the new namespace is seeded from the mode state of the old one (latest records, or frontier and journal) on a path that never reads the old namespace's root checkpoint (checkpoint.GetCheckpoint on the name the index gave): the start-up reader prefers the root when it is ahead (a full sync writes only the root), so the migration writes the older position and then deletes the old root key, the only record of the newer one — the next start resumes behind the position held before the switch", s.Pos()
				return
			}
			var readErr ssa.Value
			if rv := read.Value(); rv != nil {
				for _, ref := range *rv.Referrers() {
					if e, ok := ref.(*ssa.Extract); ok && e.Index == 2 {
						readErr = e
					}
				}
			}
			if readErr == nil || !pathNil(p, readErr) {
				bad, pos = "the read of the old root checkpoint may have failed on a path that goes on to seed the new namespace and delete the old one: the position it would have reported is lost", read.Pos()
				return
			}
			isRoot := func(v ssa.Value) bool {
				e, ok := core.Unwrap(p.Resolve(v)).(*ssa.Extract)
				return ok && e.Index == 0 && e.Tuple == read.Value()
			}
			offsetOf := func(v ssa.Value, base func(ssa.Value) bool) bool {
				ld, ok := core.Unwrap(p.Resolve(v)).(*ssa.UnOp)
				if !ok || ld.Op != token.MUL {
					return false
				}
				fa, ok := ld.X.(*ssa.FieldAddr)
				return ok && core.FieldName(fa) == "Offset" && base(fa.X)
			}
			isSeed := func(v ssa.Value) bool { return core.Unwrap(p.Resolve(v)) == seedVal }
			isRootOffset := func(v ssa.Value) bool { return offsetOf(v, isRoot) }
			isSeedOffset := func(v ssa.Value) bool { return offsetOf(v, isSeed) }
			// (b) the root's offset reaches the seed
			var raise ssa.Instruction
			for _, in := range p.Instrs {
				if in == s.Instr {
					break
				}
				st, ok := in.(*ssa.Store)
				if !ok {
					continue
				}
				fa, ok := st.Addr.(*ssa.FieldAddr)
				if ok && core.FieldName(fa) == "Offset" && isSeed(fa.X) && isRootOffset(st.Val) {
					raise = in
				}
			}
			if raise == nil && core.DependsOnDeep(seedVal, func(v ssa.Value) bool { return isRoot(v) }) {
				raise = s.Instr // the seed was built from the root
			}
			if raise == nil {
				continue
			}
			raised++
			// (c) only upwards
			greater := false
			for _, fct := range factsBefore(p, raise) {
				c, ok := core.FactCmp(fct)
				if !ok {
					continue
				}
				switch {
				case (c.Op == token.GTR || c.Op == token.GEQ) && isRootOffset(c.X) && isSeedOffset(c.Y):
					greater = true
				case (c.Op == token.LSS || c.Op == token.LEQ) && isSeedOffset(c.X) && isRootOffset(c.Y):
					greater = true
				}
			}
			if !greater {
				bad, pos = "the seed's offset is replaced by the root checkpoint's on a path that has not established that the root is ahead (root offset > seed offset): in the ordinary state the root holds the end of the last full sync and the mode state is ahead of it, the migration would move the resume position backwards", raise.Pos()
				return
			}
		}
	})
	switch {
	case !okEnum:
		r.Undecided(construct, f.Pos(), "too many paths")
	case bad != "":
		r.Fail(construct, pos, "%s", bad)
	case seeded == 0:
		r.Fail(construct, f.Pos(), "no path seeds a new namespace from the recovery state of the old one")
	default:
		r.Check(raised > 0, construct, f.Pos(), "the root checkpoint of the old namespace is read, but on no path does its offset reach the seed of the new namespace (a store into the seed's offset under 'root offset > seed offset', or a seed built from it): the newer position is still lost when the old root key is deleted")
	}
}
