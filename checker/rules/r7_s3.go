package rules

import (
	"go/token"
	"go/types"
	"strings"

	"gunyucheck/core"

	"golang.org/x/tools/go/ssa"
)

// ---------------------------------------------------------------- R10.18 the rebuilt slot list does not overwrite what is still to be read

// isBuiltinCall reports whether in is a call of the builtin `name`.
func isBuiltinCall(in ssa.Instruction, name string) (*ssa.Call, bool) {
	c, ok := in.(*ssa.Call)
	if !ok {
		return nil, false
	}
	b, ok := c.Call.Value.(*ssa.Builtin)
	return c, ok && b.Name() == name
}

// ruleRebuiltListStorage: InsertSlotInList reads the stored ranges one after
// the other and builds the list it stores from them. Either the new list has
// storage of its own, or — when it is built in the array of the stored list —
// it must never get ahead of the reader: no element is written before the first
// one was read, and between two reads at most one element is written. The
// insertion writes two elements in one step (the new range and the stored range
// it goes in front of); in shared storage the second one lands on the range
// that is read next, which is thereby lost: its slots leave the union.
func ruleRebuiltListStorage(w *core.World, r *core.Report) {
	f := fn(w, r, "(*pkg/filter.RangeList).InsertSlotInList")
	if f == nil {
		return
	}
	const construct = "RangeList.InsertSlotInList/rebuilt-list-storage"
	isListAddr := func(v ssa.Value) bool {
		fa, ok := v.(*ssa.FieldAddr)
		return ok && core.FieldName(fa) == "list" && strings.HasSuffix(core.TypeName(fa.X.Type()), "filter.RangeList")
	}
	isListLoad := func(v ssa.Value) bool {
		u, ok := v.(*ssa.UnOp)
		return ok && u.Op == token.MUL && isListAddr(u.X)
	}
	// sharesStored: v is the stored list or a window of it
	var sharesStored func(v ssa.Value, depth int) bool
	sharesStored = func(v ssa.Value, depth int) bool {
		v = core.Unwrap(v)
		if depth > 8 {
			return false
		}
		if isListLoad(v) {
			return true
		}
		if s, ok := v.(*ssa.Slice); ok {
			return sharesStored(s.X, depth+1)
		}
		return false
	}

	var stores []*ssa.Store
	for _, in := range core.Instrs(f) {
		if st, ok := in.(*ssa.Store); ok && isListAddr(st.Addr) {
			stores = append(stores, st)
		}
	}
	if len(stores) == 0 {
		r.Fail(construct, f.Pos(), "no store of the rebuilt slot list was found")
		return
	}

	// the list under construction: everything the stored value is grown from
	chain := map[ssa.Value]bool{}
	var writes []ssa.Instruction // appends to the list under construction
	shared, unknown := false, ""
	// the functions the list is built in: InsertSlotInList, its closures, the helpers they call
	var scopeFns []*ssa.Function
	scope := func() []*ssa.Function {
		if scopeFns != nil {
			return scopeFns
		}
		seen := map[*ssa.Function]bool{}
		var add func(g *ssa.Function, depth int)
		add = func(g *ssa.Function, depth int) {
			if g == nil || seen[g] || len(g.Blocks) == 0 || !inModule(g) || depth > 3 {
				return
			}
			seen[g] = true
			scopeFns = append(scopeFns, g)
			for _, c := range g.AnonFuncs {
				add(c, depth)
			}
			for _, s := range core.Sites(g, false) {
				add(s.Callee, depth+1)
			}
		}
		add(f, 0)
		return scopeFns
	}
	var grow func(v ssa.Value)
	var growResult func(c *ssa.Call, idx int)
	grow = func(v ssa.Value) {
		v = core.Unwrap(v)
		if chain[v] {
			return
		}
		chain[v] = true
		switch x := v.(type) {
		case *ssa.Phi:
			for _, e := range x.Edges {
				grow(e)
			}
		case *ssa.Slice:
			if _, isArr := x.X.(*ssa.Alloc); isArr {
				return // a slice literal: an array of its own
			}
			if x.Max != nil && isConstInt(0)(x.Max) {
				return // s[:0:0] has no capacity: the first append allocates an array of its own
			}
			grow(x.X)
		case *ssa.MakeSlice:
		case *ssa.Const:
			if !x.IsNil() {
				unknown = "a constant"
			}
		case *ssa.Call:
			if c, ok := isBuiltinCall(x, "append"); ok && len(c.Call.Args) >= 1 {
				writes = append(writes, c)
				grow(c.Call.Args[0])
				return
			}
			growResult(x, 0)
		case *ssa.Extract:
			if c, ok := x.Tuple.(*ssa.Call); ok {
				growResult(c, x.Index)
				return
			}
			unknown = v.Name() + " (" + v.Type().String() + ")"
		case *ssa.Parameter:
			// a helper (or closure) that is handed the list under construction: what its callers pass
			g := x.Parent()
			idx := -1
			for i, p := range g.Params {
				if p == x {
					idx = i
				}
			}
			found := false
			for _, h := range scope() {
				for _, in := range core.OwnInstrs(h) {
					ci, ok := in.(ssa.CallInstruction)
					if !ok || core.ResolveCall(ci).Callee != g || idx >= len(ci.Common().Args) {
						continue
					}
					found = true
					grow(ci.Common().Args[idx])
				}
			}
			if !found {
				unknown = "the parameter " + x.Name() + " of " + shortName(core.FuncName(g))
			}
		default:
			if isListLoad(v) {
				shared = true
				return
			}
			// a local variable shared with a closure (or spilled): whatever is stored into it, wherever
			if ld, ok := v.(*ssa.UnOp); ok && ld.Op == token.MUL {
				if cell := core.Cell(ld.X); cell != nil {
					for _, st := range core.CellStores(cell) {
						grow(st.Val)
					}
					return
				}
			}
			unknown = v.Name() + " (" + v.Type().String() + ")"
		}
	}
	growResult = func(c *ssa.Call, idx int) {
		g := core.ResolveCall(c).Callee
		if g == nil || len(g.Blocks) == 0 || !inModule(g) {
			unknown = "the result of " + core.ResolveCall(c).Name
			return
		}
		n := 0
		for _, in := range core.OwnInstrs(g) {
			if ret, ok := in.(*ssa.Return); ok && idx < len(ret.Results) {
				n++
				for _, rv := range core.RetVals(ret, idx) {
					grow(rv)
				}
			}
		}
		if n == 0 {
			unknown = "the result of " + core.ResolveCall(c).Name
		}
	}
	for _, st := range stores {
		grow(st.Val)
	}
	// an element written by index into the stored list's array is a write as well
	for _, in := range core.Instrs(f) {
		st, ok := in.(*ssa.Store)
		if !ok {
			continue
		}
		if ia, ok := st.Addr.(*ssa.IndexAddr); ok && (sharesStored(ia.X, 0) || chain[core.Unwrap(ia.X)] && shared) {
			shared = true
			writes = append(writes, st)
		}
	}
	if unknown != "" && !shared {
		r.Undecided(construct, stores[0].Pos(), "the list stored as the slot list is grown from %s: cannot tell whether it shares its array with the stored list that is being read (accepted: make, nil, a slice literal, append onto those; or the stored list itself, written no faster than it is read)", unknown)
		return
	}
	if !shared {
		r.OK(construct, stores[0].Pos(), "")
		return
	}

	// shared storage: the writer must stay behind the reader
	isRead := func(in ssa.Instruction) bool {
		u, ok := in.(*ssa.UnOp)
		if !ok || u.Op != token.MUL {
			return false
		}
		ia, ok := u.X.(*ssa.IndexAddr)
		if !ok || !sharesStored(ia.X, 0) {
			return false
		}
		// not the list under construction itself (its elements are read back after the loop)
		x := core.Unwrap(ia.X)
		return isListLoad(x) || !chain[x]
	}
	reads := 0
	for _, in := range core.Instrs(f) {
		if isRead(in) {
			reads++
		}
	}
	for _, wr := range writes {
		if wr.Parent() != f {
			r.Undecided(construct, wr.Pos(), "the slot list is rebuilt in the array of the stored list and an element is written inside a helper: cannot order the write with the reads of the stored ranges")
			return
		}
	}
	if reads == 0 {
		r.Undecided(construct, stores[0].Pos(), "the slot list is rebuilt in the array of the stored list, but the place where the stored ranges are read was not found: cannot tell that no range is overwritten before it is read")
		return
	}
	isWrite := func(in ssa.Instruction) bool {
		for _, wr := range writes {
			if wr == in {
				return true
			}
		}
		return false
	}
	readFollows := func(in ssa.Instruction) bool { return core.PathFrom(f, in, isRead, nil) != nil }
	// (a) a write before the first read
	if first := core.PathFrom(f, nil, func(in ssa.Instruction) bool { return isWrite(in) && readFollows(in) }, isRead); first != nil {
		r.Fail(construct, first.Pos(), "the slot list is rebuilt in the array of the stored list (it starts as a window of rl.list) and an element is written before the first stored range was read: that range is overwritten unread, its slots leave the union the slot rule must accept")
		return
	}
	// (b) two writes between two reads
	for _, wr := range writes {
		second := core.PathFrom(f, wr, func(in ssa.Instruction) bool { return isWrite(in) && readFollows(in) }, isRead)
		if second != nil {
			r.Fail(construct, second.Pos(), "the slot list is rebuilt in the array of the stored list (it starts as a window of rl.list, not as a list of its own) and two elements are written between two reads of the stored ranges (%s, then %s): once a range is inserted in front of two or more stored ranges the write position passes the read position and a configured range is overwritten before it was read — its slots leave the union the slot rule must accept. Build the merged list in storage of its own (make), or write at most one element per element read",
				w.Pos(wr.Pos()), w.Pos(second.Pos()))
			return
		}
	}
	r.OK(construct, stores[0].Pos(), "")
}

// ---------------------------------------------------------------- R18.15 the replay's result is the first published error

// ruleReplayResultIsPublishedError: a unit the parser refuses stops the replay
// *with an error*. The parser publishes its refusal on the wait-closer before it
// closes the unit channel (R18.12); a sender that finds the channel closed ends
// with nil — for it the stream simply ended. What sendAofBisync hands back must
// therefore be the wait-closer's error (the first one published), read after
// the sender has returned, and not the sender's own result: in mode `sync` the
// sender's select may take the closed channel although Done() is ready too, and
// the refusal would end the replay as a clean stop (seed C18-14; W27 was the
// same loss on the parser's side).
func ruleReplayResultIsPublishedError(w *core.World, r *core.Report) {
	const construct = "sendAofBisync/result-is-first-published-error"
	f := fn(w, r, "(*syncer.RedisOutput).sendAofBisync")
	if f == nil {
		return
	}
	isWaitCloser := func(v ssa.Value) bool { return strings.HasSuffix(core.TypeName(v.Type()), "sync.WaitCloser") }
	isUnitChan := func(v ssa.Value) bool {
		ch, ok := v.Type().Underlying().(*types.Chan)
		return ok && strings.HasSuffix(core.TypeName(ch.Elem()), "bisyncReplayUnit")
	}
	// the wait-closer the parser publishes its refusal on
	var quitCell *ssa.Alloc
	var quitVal ssa.Value
	var parserCall ssa.Instruction
	for _, g := range core.DeepFuncs(f) {
		for _, s := range core.SitesNamed(g, false, "(*syncer.RedisOutput).parseAofReplayUnits") {
			parserCall = s.Instr
			for _, a := range s.Args() {
				if !isWaitCloser(a) {
					continue
				}
				quitVal = core.Unwrap(a)
				if ld, ok := quitVal.(*ssa.UnOp); ok && ld.Op == token.MUL {
					quitCell = core.Cell(ld.X)
				}
			}
		}
	}
	if parserCall == nil || quitVal == nil {
		r.Undecided(construct, f.Pos(), "the call of parseAofReplayUnits with the wait-closer it publishes a refusal on was not found in sendAofBisync or its closures")
		return
	}
	isQuit := func(v ssa.Value) bool {
		v = core.Unwrap(v)
		if v == quitVal {
			return true
		}
		ld, ok := v.(*ssa.UnOp)
		return ok && ld.Op == token.MUL && quitCell != nil && core.Cell(ld.X) == quitCell
	}
	isQuitError := func(v ssa.Value) bool {
		c, ok := v.(*ssa.Call)
		return ok && c.Call.IsInvoke() && c.Call.Method.Name() == "Error" && len(c.Call.Args) == 0 && isQuit(c.Call.Value)
	}
	// the senders: the calls that are handed the unit channel (other than the parser). What a sender hands back when
	// it ends: "nil" (the stream ended: it found the channel closed), or only errors it saw / the wait-closer's own
	// error ("published": such a sender reports the refusal itself), or something the rule cannot classify.
	const (
		endsNil = iota
		endsPublished
		endsUnclear
	)
	senders := map[ssa.Instruction]int{}
	senderName := map[ssa.Instruction]string{}
	for _, s := range core.Sites(f, false) {
		if s.Instr.Parent() != f || s.Instr == parserCall || s.Callee == nil {
			continue
		}
		takesUnits := false
		for _, a := range s.Args() {
			if isUnitChan(a) {
				takesUnits = true
			}
		}
		if !takesUnits {
			continue
		}
		kind := endsPublished
		for _, ret := range core.ReturnsX(s.Callee) {
			// (a function that defers something keeps its result in a cell: read through the spill)
			for _, v := range core.RetVals(ret, len(ret.Results)-1) {
				v := v
				switch {
				case core.IsNilConst(v):
					kind = endsNil
				case kind == endsNil:
				case isResultOf("fmt.Errorf", -1)(v), isResultOf("errors.New", -1)(v):
				case core.NilFact(ret.Block(), func(x ssa.Value) bool { return x == v }, false):
				default:
					if c, ok := v.(*ssa.Call); ok && c.Call.IsInvoke() && c.Call.Method.Name() == "Error" && isWaitCloser(c.Call.Value) {
						continue
					}
					kind = endsUnclear
				}
			}
		}
		senders[s.Instr] = kind
		senderName[s.Instr] = shortName(s.Name)
	}
	if len(senders) == 0 {
		r.Fail(construct, f.Pos(), "no call that hands the unit channel to a sender was found in sendAofBisync")
		return
	}
	bad, unclear := "", ""
	var pos token.Pos = f.Pos()
	paths := 0
	okEnum := core.EnumPathsN(f.Blocks[0], 0, 100000, 1, func(p *core.Path) {
		ret, isRet := p.End.(*ssa.Return)
		if !isRet || ret.Parent() != f || len(ret.Results) != 1 || bad != "" {
			return
		}
		sent := -1
		for i, in := range p.Instrs {
			if _, is := senders[in]; is {
				sent = i
			}
		}
		if sent < 0 {
			return // ended before a sender ran
		}
		paths++
		rv := p.Resolve(ret.Results[0])
		for i, in := range p.Instrs {
			if i <= sent {
				continue
			}
			c, ok := in.(*ssa.Call)
			if !ok || !isQuitError(c) {
				continue
			}
			if core.Unwrap(rv) == ssa.Value(c) || pathNil(p, c) {
				// the result is the published error, or nothing was published and anything the sender gave may be returned
				return
			}
		}
		switch senders[p.Instrs[sent]] {
		case endsPublished:
			// this sender ends with the wait-closer's error (or an error of its own) and never with a plain nil
			return
		case endsUnclear:
			if unclear == "" {
				unclear = senderName[p.Instrs[sent]]
			}
			return
		}
		bad, pos = "after the sender ("+senderName[p.Instrs[sent]]+") returned, sendAofBisync hands back something other than the error published on the wait-closer the parser reports to (replayQuit.Error(), read after the sender's return): a sender that found the unit channel closed returns nil, so a unit the parser refused (keys in several slots, keys not determinable) ends the replay as a clean stop instead of an error — the refusal is lost whenever the sender's select takes the closed channel before Done()", ret.Pos()
	})
	if !okEnum {
		r.Undecided(construct, f.Pos(), "too many paths")
		return
	}
	if bad == "" && unclear != "" {
		r.Undecided(construct, f.Pos(), "sendAofBisync hands back the result of %s itself, and the rule cannot tell what that sender returns when it finds the unit channel closed (accepted: the wait-closer's Error(), a constructed error, an error tested non-nil; a nil constant means the parser's refusal would be lost)", unclear)
		return
	}
	r.Check(bad == "" && paths > 0, construct, pos, "%s", bad)
}

// ---------------------------------------------------------------- R14.15 in sync mode the start point is what the target committed

// ruleStartPointFromTargetInSyncMode: the in-process resume point (bisyncSeq /
// bisyncOffset) is advanced when a unit's reply has been read: it is the last
// *acknowledged* unit. A unit whose EXEC the target executed and whose reply
// was lost is committed but not acknowledged. In the frontier modes resuming
// behind the acknowledged unit only repeats units, which those modes allow; in
// sync mode "nothing is applied twice", so the start point has to be read from
// the records the target committed together with the units. Whatever
// bisyncStartPoint takes from the in-process resume point must therefore be
// unreachable in sync mode: guarded by a test of the replay mode that is false
// for `sync`.
func ruleStartPointFromTargetInSyncMode(w *core.World, r *core.Report) {
	const construct = "bisyncStartPoint/in-process-position-only-in-frontier-modes"
	f := fn(w, r, "(*syncer.RedisOutput).bisyncStartPoint")
	if f == nil {
		return
	}
	syncMode, okC := pkgConstString(w, "config", "ReplayModeSync")
	if !okC {
		r.Unresolved(construct, "the constant config.ReplayModeSync was not found")
		return
	}
	readsPosition := func(s core.Site) bool {
		if s.Name != "(*sync/atomic.Int64).Load" || len(s.Common().Args) < 1 {
			return false
		}
		fa, ok := s.Common().Args[0].(*ssa.FieldAddr)
		if !ok || !strings.HasSuffix(core.TypeName(fa.X.Type()), "syncer.RedisOutput") {
			return false
		}
		n := core.FieldName(fa)
		return n == "bisyncSeq" || n == "bisyncOffset"
	}
	// is v the configured replay mode?
	isMode := func(v ssa.Value) bool {
		return core.DependsOn(v, func(x ssa.Value) bool {
			ld, ok := x.(*ssa.UnOp)
			if !ok || ld.Op != token.MUL {
				return false
			}
			fa, ok := ld.X.(*ssa.FieldAddr)
			return ok && core.FieldName(fa) == "ReplayMode"
		})
	}
	// excludedInSync: the facts say something that is false when the mode is `sync`
	excludedInSync := func(facts []core.Fact) bool {
		for _, fct := range facts {
			cond, val := fct.Cond, fct.Val
			for {
				u, ok := cond.(*ssa.UnOp)
				if !ok || u.Op != token.NOT {
					break
				}
				cond, val = u.X, !val
			}
			if c, ok := cond.(*ssa.Call); ok {
				g := c.Call.StaticCallee()
				if g == nil || len(c.Call.Args) != 1 || len(g.Params) != 1 || !isMode(c.Call.Args[0]) {
					continue
				}
				if b, known := foldPredicate(w, g, syncMode); known && b != val {
					return true
				}
				continue
			}
			if cmp, ok := core.AsCmp(cond, val); ok && (cmp.Op == token.EQL || cmp.Op == token.NEQ) {
				x, y := cmp.X, cmp.Y
				if _, isS := core.ConstString(x); isS {
					x, y = y, x
				}
				s, isS := core.ConstString(y)
				if !isS || !isMode(x) {
					continue
				}
				if (s == syncMode) != (cmp.Op == token.EQL) {
					return true
				}
			}
		}
		return false
	}
	// functions of the package (reached from the start-point computation by plain calls) in which the position is
	// read on a way that sync mode can take: the read, or the call that leads to it, is not guarded in that function
	memo := map[*ssa.Function]int{} // 0 unknown, 1 reads, 2 does not, 3 in progress
	var reads func(g *ssa.Function, depth int) bool
	reads = func(g *ssa.Function, depth int) bool {
		if g == nil || len(g.Blocks) == 0 || depth > 4 {
			return false
		}
		switch memo[g] {
		case 1:
			return true
		case 2, 3:
			return false
		}
		memo[g] = 3
		res := false
		for _, s := range core.Sites(g, true) {
			if !readsPosition(s) && !(s.Callee != nil && s.Callee.Pkg == f.Pkg && s.Callee != f && reads(s.Callee, depth+1)) {
				continue
			}
			if !core.HoldsInto(s.Instr.Block(), excludedInSync) {
				res = true
			}
		}
		if res {
			memo[g] = 1
		} else {
			memo[g] = 2
		}
		return res
	}
	n := 0
	for _, s := range core.Sites(f, true) {
		in, isV := s.Instr.(ssa.Value)
		direct := readsPosition(s)
		if !direct && !(s.Callee != nil && s.Callee.Pkg == f.Pkg && s.Callee != f && reads(s.Callee, 0)) {
			continue
		}
		// does what was read decide where the replay starts?
		flows := !isV
		if isV {
			for _, ret := range core.ReturnsX(f) {
				for i := range ret.Results {
					for _, rv := range core.RetVals(ret, i) {
						if core.DependsOn(rv, func(x ssa.Value) bool { return x == in }) {
							flows = true
						}
					}
				}
			}
		}
		if !flows {
			continue
		}
		n++
		what := "reads the in-process resume point (bisyncSeq / bisyncOffset)"
		if !direct {
			what = "calls " + shortName(s.Name) + ", which reads the in-process resume point (bisyncSeq / bisyncOffset),"
		}
		r.Check(core.HoldsInto(s.Instr.Block(), excludedInSync), construct, s.Instr.Pos(),
			"bisyncStartPoint %s and returns a start point made of it on a path that replay mode %q can take (no test of the replay mode that is false for %q guards it). The in-process position is the last unit whose reply was READ; a unit the target executed whose reply was lost is committed but not acknowledged, so an in-process restart resumes behind it and applies it twice. In sync mode the start point must be the `latest` record the target committed with the unit; the in-process fast path is for the frontier modes (pipeline, parallel), where repeating a unit is allowed",
			what, syncMode, syncMode)
	}
	if n == 0 {
		// nothing of the start point comes from memory: the rule has nothing to forbid
		r.OK(construct, f.Pos(), "")
	}
}
