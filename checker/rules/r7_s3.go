package rules

import (
	"go/token"
	"strings"

	"gunyucheck/core"

	"golang.org/x/tools/go/ssa"
)

// ---------------------------------------------------------------- R10.18 the rebuilt slot list does not overwrite what is still to be read

// isBuiltinCall reports whether in is a call of the builtin `name`.
func isBuiltinCall(in ssa.Instruction, name string) (*ssa.Call, bool) {
	c, ok := in.(*ssa.Call)
	if !ok {
		return nil, false
	}
	b, ok := c.Call.Value.(*ssa.Builtin)
	return c, ok && b.Name() == name
}

// ruleRebuiltListStorage: InsertSlotInList reads the stored ranges one after
// the other and builds the list it stores from them. Either the new list has
// storage of its own, or — when it is built in the array of the stored list —
// it must never get ahead of the reader: no element is written before the first
// one was read, and between two reads at most one element is written. The
// insertion writes two elements in one step (the new range and the stored range
// it goes in front of); in shared storage the second one lands on the range
// that is read next, which is thereby lost: its slots leave the union.
func ruleRebuiltListStorage(w *core.World, r *core.Report) {
	f := fn(w, r, "(*pkg/filter.RangeList).InsertSlotInList")
	if f == nil {
		return
	}
	const construct = "RangeList.InsertSlotInList/rebuilt-list-storage"
	isListAddr := func(v ssa.Value) bool {
		fa, ok := v.(*ssa.FieldAddr)
		return ok && core.FieldName(fa) == "list" && strings.HasSuffix(core.TypeName(fa.X.Type()), "filter.RangeList")
	}
	isListLoad := func(v ssa.Value) bool {
		u, ok := v.(*ssa.UnOp)
		return ok && u.Op == token.MUL && isListAddr(u.X)
	}
	// sharesStored: v is the stored list or a window of it
	var sharesStored func(v ssa.Value, depth int) bool
	sharesStored = func(v ssa.Value, depth int) bool {
		v = core.Unwrap(v)
		if depth > 8 {
			return false
		}
		if isListLoad(v) {
			return true
		}
		if s, ok := v.(*ssa.Slice); ok {
			return sharesStored(s.X, depth+1)
		}
		return false
	}

	var stores []*ssa.Store
	for _, in := range core.Instrs(f) {
		if st, ok := in.(*ssa.Store); ok && isListAddr(st.Addr) {
			stores = append(stores, st)
		}
	}
	if len(stores) == 0 {
		r.Fail(construct, f.Pos(), "no store of the rebuilt slot list was found")
		return
	}

	// the list under construction: everything the stored value is grown from
	chain := map[ssa.Value]bool{}
	var writes []ssa.Instruction // appends to the list under construction
	shared, unknown := false, ""
	var grow func(v ssa.Value)
	grow = func(v ssa.Value) {
		v = core.Unwrap(v)
		if chain[v] {
			return
		}
		chain[v] = true
		switch x := v.(type) {
		case *ssa.Phi:
			for _, e := range x.Edges {
				grow(e)
			}
		case *ssa.Slice:
			if _, isArr := x.X.(*ssa.Alloc); isArr {
				return // a slice literal: an array of its own
			}
			grow(x.X)
		case *ssa.MakeSlice:
		case *ssa.Const:
			if !x.IsNil() {
				unknown = "a constant"
			}
		case *ssa.Call:
			if c, ok := isBuiltinCall(x, "append"); ok && len(c.Call.Args) >= 1 {
				writes = append(writes, c)
				grow(c.Call.Args[0])
				return
			}
			unknown = "the result of " + core.ResolveCall(x).Name
		default:
			if isListLoad(v) {
				shared = true
				return
			}
			unknown = v.Name() + " (" + v.Type().String() + ")"
		}
	}
	for _, st := range stores {
		grow(st.Val)
	}
	// an element written by index into the stored list's array is a write as well
	for _, in := range core.Instrs(f) {
		st, ok := in.(*ssa.Store)
		if !ok {
			continue
		}
		if ia, ok := st.Addr.(*ssa.IndexAddr); ok && (sharesStored(ia.X, 0) || chain[core.Unwrap(ia.X)] && shared) {
			shared = true
			writes = append(writes, st)
		}
	}
	if unknown != "" && !shared {
		r.Undecided(construct, stores[0].Pos(), "the list stored as the slot list is grown from %s: cannot tell whether it shares its array with the stored list that is being read (accepted: make, nil, a slice literal, append onto those; or the stored list itself, written no faster than it is read)", unknown)
		return
	}
	if !shared {
		r.OK(construct, stores[0].Pos(), "")
		return
	}

	// shared storage: the writer must stay behind the reader
	isRead := func(in ssa.Instruction) bool {
		u, ok := in.(*ssa.UnOp)
		if !ok || u.Op != token.MUL {
			return false
		}
		ia, ok := u.X.(*ssa.IndexAddr)
		if !ok || !sharesStored(ia.X, 0) {
			return false
		}
		// not the list under construction itself (its elements are read back after the loop)
		x := core.Unwrap(ia.X)
		return isListLoad(x) || !chain[x]
	}
	reads := 0
	for _, in := range core.Instrs(f) {
		if isRead(in) {
			reads++
		}
	}
	for _, wr := range writes {
		if wr.Parent() != f {
			r.Undecided(construct, wr.Pos(), "the slot list is rebuilt in the array of the stored list and an element is written inside a helper: cannot order the write with the reads of the stored ranges")
			return
		}
	}
	if reads == 0 {
		r.Undecided(construct, stores[0].Pos(), "the slot list is rebuilt in the array of the stored list, but the place where the stored ranges are read was not found: cannot tell that no range is overwritten before it is read")
		return
	}
	isWrite := func(in ssa.Instruction) bool {
		for _, wr := range writes {
			if wr == in {
				return true
			}
		}
		return false
	}
	readFollows := func(in ssa.Instruction) bool { return core.PathFrom(f, in, isRead, nil) != nil }
	// (a) a write before the first read
	if first := core.PathFrom(f, nil, func(in ssa.Instruction) bool { return isWrite(in) && readFollows(in) }, isRead); first != nil {
		r.Fail(construct, first.Pos(), "the slot list is rebuilt in the array of the stored list (it starts as a window of rl.list) and an element is written before the first stored range was read: that range is overwritten unread, its slots leave the union the slot rule must accept")
		return
	}
	// (b) two writes between two reads
	for _, wr := range writes {
		second := core.PathFrom(f, wr, func(in ssa.Instruction) bool { return isWrite(in) && readFollows(in) }, isRead)
		if second != nil {
			r.Fail(construct, second.Pos(), "the slot list is rebuilt in the array of the stored list (it starts as a window of rl.list, not as a list of its own) and two elements are written between two reads of the stored ranges (%s, then %s): once a range is inserted in front of two or more stored ranges the write position passes the read position and a configured range is overwritten before it was read — its slots leave the union the slot rule must accept. Build the merged list in storage of its own (make), or write at most one element per element read",
				w.Pos(wr.Pos()), w.Pos(second.Pos()))
			return
		}
	}
	r.OK(construct, stores[0].Pos(), "")
}
