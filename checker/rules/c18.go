package rules

import (
	"go/types"
	"fmt"
	"go/token"
	"os"
	"strings"

	"gunyucheck/core"

	"golang.org/x/tools/go/ssa"
)

func init() {
	All["C18"] = c18
	core.Explanations["C18"] = "Decides necessary structural conditions of 'cluster-mode bidirectional units are single-slot or refused, never best-effort': " +
		"(R18.1) the unit builder visits every command and every key (forward ranges over the whole slices), hashes each key with the module's slot function, and every failure edge (resolver error, unresolved, no keys, slot mismatch) returns an error; in cluster mode the slot mode is the zero mode (no forced slot, no cross-slot allowance); key resolution keeps every key position (no skipped keys); " +
		"(R18.2) the unit's slot tag is BisyncSlotTag of the very slot stored in the unit; (R18.3) control keys are built with the unit's slot tag, constructor formats contain exactly one brace pair around the tag and brace-free literal parts; (R18.4) the cluster client re-validates: every key hashed, every refusal recorded, Dispatch returns the recorded error before anything is sent, strict key resolution; " +
		"(R18.5) a unit is emitted only on the builder's success edge; (R18.6) the builder refuses for the listed reasons only (a unit whose keys share a slot is never refused). (R11.1-R11.5, shared with C11) the slot function used by the builder and the one used by the cluster client are both HASH_SLOT and agree, because a unit judged single-slot by a wrong slot function is not single-slot for the cluster."
}

const unitBuilder = "syncer.buildBisyncReplayUnitWithMode"

func c18(w *core.World, r *core.Report) {
	b := fn(w, r, unitBuilder)
	r.Rule("R18.1", "builder: every command, every key, module slot function, every failure edge refuses; cluster mode = zero slot mode; key resolution keeps every key", 6)
	if b != nil {
		ruleBuilderVisitsAll(w, r, b)
	}
	ruleSlotModeCluster(w, r)
	ruleCommandKeysKeepsAll(w, r)

	r.Rule("R18.2", "slot tag is BisyncSlotTag(slot) of the slot stored in the unit", 1)
	if b != nil {
		okTag := false
		var slotV, tagArg ssa.Value
		for _, in := range core.Instrs(b) {
			st, ok := in.(*ssa.Store)
			if !ok {
				continue
			}
			fa, ok := st.Addr.(*ssa.FieldAddr)
			if !ok || !strings.HasSuffix(core.TypeName(fa.X.Type()), "bisyncReplayUnit") {
				continue
			}
			switch core.FieldName(fa) {
			case "Slot":
				slotV = st.Val
			case "SlotTag":
				if c, ok := st.Val.(*ssa.Call); ok && core.ResolveCall(c).Name == "pkg/redis/checkpoint.BisyncSlotTag" {
					tagArg = c.Call.Args[0]
				}
			}
		}
		// ... the same value, or the same field of the builder's state record read twice with nothing in between
		// that could change it
		okTag = slotV != nil && tagArg != nil && sameReadUnchanged(slotV, tagArg)
		r.Check(okTag, "buildBisyncReplayUnit/slot-tag", b.Pos(), "the tag that places the control keys must be derived from the same slot value that the unit records")
	}

	r.Rule("R18.3", "control keys use the unit's slot tag; constructor formats have exactly one {%s} and brace-free literals", 7)
	ruleControlKeys(w, r)

	r.Rule("R18.9", "the slot-tag table behind the control keys is read only after it was built", 1)
	ruleSlotTagTablePublished(w, r)
	r.Rule("R10.8", "a transaction reduced by the filters is judged (single slot or refused) on what is left of it: the unit is built from the filter's projection, not from the decoded arguments (shared with C10)", 1)
	ruleUnitFromProjection(w, r)
	r.Rule("R18.11", "keys that one target node resolved are used: an error is reported only when no node answered", 1)
	ruleResolvedKeysWin(w, r)
	r.Rule("R18.12", "a refusal is published before the unit channel is closed: the sender that sees the closed channel ends cleanly, so the parser's error must already be the replay's result", 1)
	ruleRefusalPublishedBeforeClose(w, r)
	r.Rule("R18.15", "the replay's result is the first error published on the wait-closer the parser reports its refusal to, read after the sender returned — never the sender's own result, which is nil when it found the unit channel closed", 1)
	ruleReplayResultIsPublishedError(w, r)
	r.Rule("R18.14", "the keys a unit is judged on are resolved from the command itself: a resolution keeps nothing of the command it resolved for a later one", 1)
	ruleResolutionKeepsNothing(w, r)
	r.Rule("R18.10", "the relaxed slot mode (forced slot 0, cross-slot accepted) is selected by 'the target is not a cluster' and nothing narrower", 1)
	ruleSlotModeByTargetKind(w, r)
	r.Rule("R18.4", "cluster client re-validation before MULTI is sent", 4)
	ruleTxnBatcherValidation(w, r)

	r.Rule("R18.5", "a unit is emitted only on the builder's success edge", 1)
	if f := fn(w, r, "(*syncer.RedisOutput).parseAofReplayUnits"); f != nil {
		// the function that emits: a closure of the parser, or a function of the package the parser calls, that sends
		// a unit on a channel (unitEmitters, r7_n3.go: with the position of the unit among its arguments)
		emitters := unitEmitters(f)
		n := 0
		// the emit closure is called from the parser itself, or from a closure that builds and emits
		for _, g := range core.DeepFuncs(f) {
			for _, s := range core.Sites(g, false) {
				unitArg, isEmit := emitters[s.Callee]
				if s.Callee == nil || !isEmit || s.Instr.Parent() != g || unitArg >= len(s.Common().Args) {
					continue
				}
				n++
				okB := false
				builds := core.SitesNamed(g, false, unitBuilder)
				// ... or a helper that hands the builder's answer on as it is
				for _, bs := range core.Sites(g, false) {
					if bs.Callee != nil && passesOn(bs.Callee, unitBuilder, 0) {
						builds = append(builds, bs)
					}
				}
				for _, bs := range builds {
					if core.Dominates(bs.Instr, s.Instr) && core.OnSuccessOf(s.Instr.Block(), bs.Value()) && core.Unwrap(s.Common().Args[unitArg]) == extractOf(bs.Value(), 0) {
						okB = true
					}
				}
				r.Check(okB, "parseAofReplayUnits/emit-after-success", s.Pos(), "a unit is emitted without the builder having succeeded for it (a refused unit must stop the replay before anything is sent)")
			}
		}
		if n == 0 {
			r.Fail("parseAofReplayUnits/emit-after-success", f.Pos(), "no emit site found")
		}
	}

	r.Rule("R18.6", "the builder refuses for the listed reasons only", 1)
	if b != nil {
		ruleRefusalReasons(w, r, b)
	}

	r.Rule("R18.8", "the static key table names every key of the multi-key commands (rows equal the published key specifications; shared with R10.9): builder and client both resolve keys through it", 1)
	ruleMultiKeySpecs(w, r)
	r.Rule("R18.7", "snapshot units: the slot (and with it the marker's slot tag) is computed from the key the unit's commands are written under", 1)
	if f := fn(w, r, "(*syncer.RedisOutput).buildBisyncRdbReplayUnit"); f != nil {
		isTarget := isResultOf("(*syncer.RedisOutput).bisyncRdbTargetKey", -1)
		n := 0
		for _, st := range core.SitesNamed(f, false, "pkg/redis.KeyToSlot") {
			n++
			arg := core.Unwrap(st.Args()[0])
			if c, ok := arg.(*ssa.Call); ok && core.ResolveCall(c).Name == "pkg/util.BytesToString" {
				arg = core.Unwrap(c.Call.Args[0])
			}
			r.Check(core.DependsOn(arg, isTarget), "buildBisyncRdbReplayUnit/slot-of-written-key", st.Pos(), "the unit's slot must be the slot of the key its commands are written under (the possibly rewritten target key), not of the source key: with hash-tag rewriting the marker would be placed in another slot than the business keys and the transaction refused as cross-slot")
		}
		if n == 0 {
			r.Fail("buildBisyncRdbReplayUnit/slot-of-written-key", f.Pos(), "no slot computation found for snapshot units")
		}
	}

	// "Single-slot" is judged by the builder with pkg/redis.KeyToSlot and by the
	// client with its own hash(); a unit the builder accepts is single-slot for
	// the cluster only if both are Redis Cluster's HASH_SLOT. The slot-function
	// rules of C11 (R11.1-R11.5) are therefore obligations of C18 as well.
	c11(w, r)
	r.Rule("R13.6", "a source transaction the filters emptied is skipped, not handed to the unit builder (which refuses an empty unit and stops the replay on a transaction that spans no slot at all) (shared with C13)", 4)
	ruleTxnBuffer(w, r)
	r.Rule("R18.13", "the cluster client's slot table gives every slot of a reported range an owner, both ends included: a single-slot unit is never refused for want of a node", 1)
	ruleSlotTableCoversRangeEnds(w, r)
}

func extractOf(call ssa.Value, idx int) ssa.Value {
	for _, ref := range *call.Referrers() {
		if e, ok := ref.(*ssa.Extract); ok && e.Index == idx {
			return e
		}
	}
	return nil
}

func ruleBuilderVisitsAll(w *core.World, r *core.Report, b *ssa.Function) {
	cmds := paramOf(b, "bisyncAofCommand", "cmds")
	// resolver call inside a forward range over cmds
	var res core.Site
	for _, s := range core.Sites(b, false) {
		if s.Name == "dynamic" || strings.Contains(s.Name, "resolver") || (s.Callee == nil && !s.Common().IsInvoke() && s.Name == "dynamic") {
			if len(s.Common().Args) == 2 {
				res = s
			}
		}
	}
	if res.Instr == nil {
		r.Undecided("buildBisyncReplayUnit/resolver", b.Pos(), "key resolver call not found")
		return
	}
	// arguments come from an element of cmds with a forward full range
	var ia *ssa.IndexAddr
	core.Walk(res.Common().Args[0], func(v ssa.Value) bool {
		if x, ok := v.(*ssa.IndexAddr); ok && ia == nil {
			ia = x
		}
		return true
	})
	okCmds := ia != nil && forwardRangeIndex(ia.Index) && cmds != nil && isParam(cmds)(ia.X)
	r.Check(okCmds, "buildBisyncReplayUnit/every-command", res.Pos(), "keys must be resolved for every command of the unit (forward range over the whole command slice)")
	// KeyToSlot on every key of the resolver result
	n := 0
	for _, s := range core.SitesNamed(b, false, "pkg/redis.KeyToSlot") {
		n++
		var ka *ssa.IndexAddr
		core.Walk(s.Args()[0], func(v ssa.Value) bool {
			if x, ok := v.(*ssa.IndexAddr); ok && ka == nil {
				ka = x
			}
			return true
		})
		okKeys := ka != nil && forwardRangeIndex(ka.Index) && (ka.X == extractOf(res.Value(), 0) ||
			core.DependsOn(ka.X, func(v ssa.Value) bool { return v == extractOf(res.Value(), 0) }))
		r.Check(okKeys, "buildBisyncReplayUnit/every-key", s.Pos(), "every key returned by the resolver must be hashed with the module's slot function (forward range over all keys)")
	}
	if n == 0 {
		r.Fail("buildBisyncReplayUnit/every-key", b.Pos(), "keys are not hashed with redis.KeyToSlot")
	}
	// failure edges: on every path, (resolver err != nil) | (!ok) | (len(keys)==0) | (keySlot != slot in strict mode) => returns (nil, non-nil)
	isErr := func(v ssa.Value) bool { return core.Unwrap(v) == extractOf(res.Value(), 2) }
	isOK := func(v ssa.Value) bool { return core.Unwrap(v) == extractOf(res.Value(), 1) }
	isLenKeys := lenOf(func(v ssa.Value) bool {
		return v == extractOf(res.Value(), 0) || core.DependsOn(v, func(x ssa.Value) bool { return x == extractOf(res.Value(), 0) })
	})
	isKeySlot := isResultOf("pkg/redis.KeyToSlot", -1)
	bad := ""
	var badPos token.Pos
	seen := map[string]bool{}
	okEnum := core.EnumPathsN(b.Blocks[0], 0, 400000, 3, func(p *core.Path) {
		ret, ok := p.End.(*ssa.Return)
		if !ok || bad != "" {
			return
		}
		refused := !pathNil(p, ret.Results[1])
		why := ""
		switch {
		case p.Holds(token.NEQ, isErr, core.IsNilConst):
			why = "resolver-error"
		case pathAssumed(p, isOK, false):
			why = "unresolved"
		case p.Holds(token.EQL, isLenKeys, isConstInt(0)):
			why = "no-keys"
		}
		if why == "" {
			// slot mismatch in strict mode
			for _, fct := range p.Conds {
				c, ok := core.FactCmp(fct)
				if ok && c.Op == token.NEQ && (isKeySlot(p.Resolve(c.X)) || isKeySlot(p.Resolve(c.Y))) {
					strict := true
					for _, f2 := range p.Conds {
						if f2.Val && core.IsFieldLoad(core.Unwrap(p.Resolve(f2.Cond)), "", "allowCrossSlot") {
							strict = false
						}
						if c2, ok := core.FactCmp(f2); ok && c2.Op == token.NEQ && core.IsNilConst(c2.Y) && core.IsFieldLoad(core.Unwrap(p.Resolve(c2.X)), "", "forceSlot") {
							strict = false
						}
					}
					if strict {
						why = "cross-slot"
					}
				}
			}
		}
		if os.Getenv("GUNYU_DEBUG") != "" && !refused {
			fmt.Println("DEBUG unit path why=", why, "conds=", len(p.Conds))
			for _, fct := range p.Conds {
				if c, ok := core.FactCmp(fct); ok {
					fmt.Println("   ", c.Op, p.Resolve(c.X).String(), "|", p.Resolve(c.Y).String())
				} else {
					fmt.Println("   ", fct.Val, fct.Cond.String())
				}
			}
		}
		if why != "" {
			seen[why] = true
			if !refused {
				bad, badPos = "the builder returns a unit on a path with '"+why+"': the source command is replayed approximately instead of stopping the replay", ret.Pos()
			}
		}
	})
	if !okEnum {
		r.Undecided("buildBisyncReplayUnit/failure-edges-refuse", b.Pos(), "too many paths through the unit builder")
		return
	}
	var missing []string
	for _, k := range []string{"resolver-error", "unresolved", "no-keys", "cross-slot"} {
		if !seen[k] {
			missing = append(missing, k)
		}
	}
	r.Check(bad == "" && len(missing) == 0, "buildBisyncReplayUnit/failure-edges-refuse", badPos, "%s (failure edges not found at all: %v)", bad, missing)
}

func ruleSlotModeCluster(w *core.World, r *core.Report) {
	f := fn(w, r, "(*syncer.RedisOutput).bisyncSlotMode")
	if f == nil {
		return
	}
	bad := ""
	n := 0
	core.EnumPaths(f.Blocks[0], 0, 1000, func(p *core.Path) {
		ret, ok := p.End.(*ssa.Return)
		if !ok {
			return
		}
		cluster := pathAssumed(p, func(v ssa.Value) bool {
			c, ok := core.Unwrap(v).(*ssa.Call)
			return ok && strings.HasSuffix(core.ResolveCall(c).Name, "RedisConfig).IsCluster")
		}, true)
		if !cluster {
			return
		}
		n++
		// the returned mode has no field set
		for _, rv := range core.RetVals(ret, 0) {
			if ld, ok := p.Resolve(rv).(*ssa.UnOp); ok {
				if a, ok := ld.X.(*ssa.Alloc); ok {
					for _, ref := range *a.Referrers() {
						if fa, ok := ref.(*ssa.FieldAddr); ok {
							for _, rr := range *fa.Referrers() {
								if st, ok := rr.(*ssa.Store); ok {
									if b, isB := core.ConstBool(st.Val); isB && !b {
										continue
									}
									if core.IsNilConst(st.Val) {
										continue
									}
									bad = "in cluster mode the unit builder is told to force a slot or to allow cross-slot units"
								}
							}
						}
					}
				}
			}
		}
	})
	r.Check(bad == "" && n > 0, "bisyncSlotMode/cluster-is-strict", f.Pos(), "%s", bad)
}

// ruleCommandKeysKeepsAll: CommandKeys turns every key index into a key (no skipped positions).
func ruleCommandKeysKeepsAll(w *core.World, r *core.Report) {
	f := fn(w, r, "pkg/redis/keyspec.CommandKeys")
	if f == nil {
		return
	}
	var app *ssa.Call
	for _, in := range core.Instrs(f) {
		if c, ok := in.(*ssa.Call); ok {
			if b, ok := c.Call.Value.(*ssa.Builtin); ok && b.Name() == "append" && strings.HasSuffix(c.Type().String(), "[]string") {
				app = c
			}
		}
	}
	if app == nil {
		r.Undecided("keyspec.CommandKeys/keeps-every-key", f.Pos(), "key collection not found")
		return
	}
	head := core.LoopHeadOf(app.Block())
	if head == nil {
		r.Undecided("keyspec.CommandKeys/keeps-every-key", f.Pos(), "key loop not found")
		return
	}
	bad := ""
	n := 0
	core.EnumPaths(head, 0, 10000, func(p *core.Path) {
		if !p.Closed {
			return
		}
		// an iteration that comes back to the head visited an index: it must have appended the key
		body := false
		for _, b := range p.Blocks[1:] {
			_ = b
			body = true
		}
		if !body {
			return
		}
		n++
		has := false
		for _, in := range p.Instrs {
			if in == ssa.Instruction(app) {
				has = true
			}
		}
		if !has {
			bad = "a key position is skipped without refusing the command: a multi-key command then looks single-slot to both the unit builder and the cluster client"
		}
	})
	r.Check(bad == "" && n > 0, "keyspec.CommandKeys/keeps-every-key", app.Pos(), "%s", bad)
	// the appended key is string(args[idx]) for the loop's index element
	okElem := false
	if el, ok := core.VariadicElems(app.Call.Args[1]); ok && len(el) == 1 {
		core.Walk(el[0], func(v ssa.Value) bool {
			if ia, ok := v.(*ssa.IndexAddr); ok && ia.X == ssa.Value(f.Params[1]) {
				okElem = true
			}
			return true
		})
	}
	r.Check(okElem, "keyspec.CommandKeys/key-is-argument", app.Pos(), "the collected key must be the argument at the key index")
}

func ruleControlKeys(w *core.World, r *core.Report) {
	for _, name := range []string{"BisyncMarkerKey", "BisyncCommitIndexKey", "BisyncLatestCheckpointKey", "BisyncCommitRecordKey", "BisyncRdbRecordKey"} {
		f := fn(w, r, "pkg/redis/checkpoint."+name)
		if f == nil {
			continue
		}
		t, okT := funcStrTemplate(f)
		if !okT {
			r.Undecided("checkpoint."+name+"/one-hash-tag", f.Pos(), "the shape of the key this function builds could not be determined")
			continue
		}
		// exactly one brace pair in the constant parts, and what stands between "{" and "}" is the
		// constructor's second parameter: the position at which the dispatcher hands over the unit's
		// slot tag (checked below)
		opens, closes := 0, 0
		ok := false
		for i, pc := range t {
			if pc.hole != nil {
				continue
			}
			opens += strings.Count(pc.lit, "{")
			closes += strings.Count(pc.lit, "}")
			if strings.HasSuffix(pc.lit, "{") && i+2 < len(t) && t[i+1].hole != nil && t[i+2].hole == nil && strings.HasPrefix(t[i+2].lit, "}") {
				if par, isP := t[i+1].hole.(*ssa.Parameter); isP && len(f.Params) >= 2 && par == f.Params[1] {
					ok = true
				}
			}
		}
		ok = ok && opens == 1 && closes == 1
		r.Check(ok, "checkpoint."+name+"/one-hash-tag", f.Pos(), "a control key must contain exactly one brace pair, around the slot tag, so that it hashes to the unit's slot")
	}
	// the checkpoint name used inside those keys is brace-free
	if f := fn(w, r, "pkg/redis/checkpoint.NewBisyncCheckpointName"); f != nil {
		bad := false
		for _, s := range core.Sites(f, false) {
			for _, a := range s.Common().Args {
				if str, ok := core.ConstString(a); ok && strings.ContainsAny(str, "{}") {
					bad = true
				}
			}
		}
		r.Check(!bad, "checkpoint.NewBisyncCheckpointName/brace-free", f.Pos(), "a checkpoint name with braces would add a second hash tag to every control key")
	}
	// call sites in the dispatcher pass unit.SlotTag
	if f := fn(w, r, "(*syncer.RedisOutput).dispatchBisyncUnit"); f != nil {
		n, okAll := 0, true
		var pos token.Pos = f.Pos()
		for _, s := range core.Sites(f, false) {
			if !strings.HasPrefix(s.Name, "pkg/redis/checkpoint.Bisync") || !strings.HasSuffix(s.Name, "Key") || len(s.Args()) < 2 {
				continue
			}
			n++
			if !core.IsFieldLoad(core.Unwrap(s.Args()[1]), "bisyncReplayUnit", "SlotTag") {
				okAll = false
				pos = s.Pos()
			}
		}
		r.Check(okAll && n >= 3, "dispatchBisyncUnit/keys-use-unit-tag", pos, "marker, record and index keys must be built with the unit's own slot tag (sites=%d)", n)
	}
}

func ruleTxnBatcherValidation(w *core.World, r *core.Report) {
	put := fn(w, r, "(*pkg/redis/client/cluster.txnBatcher).Put")
	if put != nil {
		// strict key resolution
		okStrict := false
		var keysV ssa.Value
		for _, s := range core.SitesNamed(put, false, "*Cluster).chooseNodeWithCmdAndKeys") {
			a := s.Args()
			if len(a) >= 2 {
				if b, ok := core.ConstBool(a[1]); ok && b {
					okStrict = true
				}
			}
			keysV = extractOf(s.Value(), 1)
		}
		r.Check(okStrict, "txnBatcher.Put/strict-keys", put.Pos(), "transaction commands must be routed with strict key resolution")
		// every key hashed: hash(keys[0]) and a forward range over keys[1:] calling hash
		n := 0
		first, rest := false, false
		for _, s := range core.SitesNamed(put, false, "pkg/redis/client/cluster.hash") {
			n++
			core.Walk(s.Args()[0], func(v ssa.Value) bool {
				if ia, ok := v.(*ssa.IndexAddr); ok {
					// the key list itself, or a helper's parameter that stands for it
					isKeys := func(x ssa.Value) bool {
						if x == keysV {
							return true
						}
						for _, a := range argValues(x, put) {
							if core.Unwrap(a) == keysV {
								return true
							}
						}
						return false
					}
					if isConstInt(0)(ia.Index) && isKeys(ia.X) {
						first = true
					}
					if sl, ok := ia.X.(*ssa.Slice); ok && isKeys(sl.X) && isConstInt(1)(sl.Low) && sl.High == nil && forwardRangeIndex(ia.Index) {
						rest = true
					}
					// or an index loop from 1 to len(keys)
					if isKeys(ia.X) && indexCoversFrom(ia.Index, 1, ia.X) {
						rest = true
					}
				}
				return true
			})
		}
		r.Check(first && rest, "txnBatcher.Put/every-key-hashed", put.Pos(), "the first key and every further key of a command must be hashed and compared (first=%v rest=%v)", first, rest)
		// every non-nil error return goes through joinError (recorded)
		bad := ""
		var badPos token.Pos
		for _, in := range core.Instrs(put) {
			ret, ok := in.(*ssa.Return)
			if !ok {
				continue
			}
			for _, rv := range core.RetVals(ret, 0) {
				if core.IsNilConst(rv) {
					continue
				}
				if !isResultOf("(*pkg/redis/client/cluster.txnBatcher).joinError", -1)(rv) {
					bad, badPos = "a refusal is returned without being recorded in the batcher: Dispatch would still send the transaction", ret.Pos()
				}
			}
		}
		r.Check(bad == "", "txnBatcher.Put/refusals-recorded", badPos, "%s", bad)
	}
	if d := fn(w, r, "(*pkg/redis/client/cluster.txnBatcher).Dispatch"); d != nil {
		okFirst := false
		for _, s := range core.SitesNamed(d, false, "(*pkg/redis/client/cluster.txnBatcher).dispatchToNode") {
			for _, fct := range core.FactsAt(s.Instr.Block()) {
				c, ok := core.FactCmp(fct)
				if ok && c.Op == token.EQL && core.IsNilConst(c.Y) && core.IsFieldLoad(core.Unwrap(c.X), "txnBatcher", "err") {
					okFirst = true
				}
			}
		}
		r.Check(okFirst, "txnBatcher.Dispatch/recorded-error-first", d.Pos(), "Dispatch must return the recorded refusal before anything is handed to a node")
	}
}

func ruleRefusalReasons(w *core.World, r *core.Report, b *ssa.Function) {
	// every return with a non-nil error is preceded (on all its paths) by one of the listed reasons
	bad := ""
	var badPos token.Pos
	n := 0
	isKeySlot := isResultOf("pkg/redis.KeyToSlot", -1)
	core.EnumPathsN(b.Blocks[0], 0, 400000, core.Unroll, func(p *core.Path) {
		ret, ok := p.End.(*ssa.Return)
		if !ok || bad != "" || pathNil(p, ret.Results[1]) {
			return
		}
		n++
		if len(p.Conds) == 0 {
			bad, badPos = "unconditional refusal", ret.Pos()
			return
		}
		last := p.Conds[len(p.Conds)-1]
		// the decision may have been made by a helper the path stepped into; the reason is then what decided there:
		// (a) `if err := helper(...); err != nil { return nil, err }` where the helper built the error on the spot:
		//     the test decides nothing, the reason is the fact before it (the helper's last decision);
		// (b) `if !state.predicate()`: a constant answer was decided by the predicate's last branch, any other
		//     answer is the value the predicate returned, judged as if it had been tested in place.
		for k := len(p.Conds) - 1; k >= 0; {
			last = p.Conds[k]
			if c, isCmp := core.FactCmp(last); isCmp && c.Op == token.NEQ && core.IsNilConst(core.Unwrap(p.Resolve(c.Y))) && madeErrorOutside(p.Resolve(c.X), b) {
				if k == 0 {
					bad, badPos = "unconditional refusal (by a helper)", ret.Pos()
					return
				}
				k--
				continue
			}
			if call, isCall := last.Cond.(*ssa.Call); isCall && last.Res != nil && last.Res != ssa.Value(call) {
				if g := call.Call.StaticCallee(); g != nil {
					if _, isConst := core.ConstBool(last.Res); isConst {
						j := k - 1
						for j >= 0 && (p.Conds[j].If == nil || p.Conds[j].If.Parent() != g) {
							j--
						}
						if j < 0 {
							bad, badPos = "the builder refuses a unit on the constant answer of a helper", ret.Pos()
							return
						}
						k = j
						continue
					}
					last = core.Fact{Cond: last.Res, Val: last.Val, Res: last.Res}
				}
			}
			break
		}
		c, isCmp := core.FactCmp(last)
		okReason := false
		if isCmp {
			x, y := core.Unwrap(p.Resolve(c.X)), core.Unwrap(p.Resolve(c.Y))
			switch {
			case c.Op == token.NEQ && core.IsNilConst(y): // err != nil
				okReason = true
			case c.Op == token.EQL && isConstInt(0)(y): // len(...) == 0, keysSeen == 0
				okReason = true
			case c.Op == token.NEQ && (isKeySlot(x) || isKeySlot(y)): // keySlot != slot
				okReason = true
			}
		} else {
			// !ok  /  !slotKnown
			v := core.Unwrap(p.Resolve(last.Cond))
			if _, isE := v.(*ssa.Extract); isE && !last.Val {
				okReason = true
			}
			// "no slot recorded yet": a boolean that starts false and is only ever set to true
			if ph, isPhi := v.(*ssa.Phi); isPhi && !last.Val && isSeenFlag(ph) {
				okReason = true
			}
			// ... the same flag kept in a field of the builder's state record
			if ld, isLd := v.(*ssa.UnOp); isLd && ld.Op == token.MUL && !last.Val {
				if fa, isFa := ld.X.(*ssa.FieldAddr); isFa && latchField(w, fa) {
					okReason = true
				}
			}
		}
		if !okReason && os.Getenv("GUNYU_DEBUG") != "" {
			fmt.Println("DEBUG refusal last fact:", last.Val, last.Cond.String(), "res=", last.Res, "isCmp=", isCmp)
			if isCmp {
				fmt.Println("   ", c.Op, p.Resolve(c.X).String(), "|", p.Resolve(c.Y).String())
			}
		}
		if !okReason {
			bad, badPos = "the builder refuses a unit for a reason other than resolver error / unresolved / no keys / slot mismatch / empty unit: a unit whose keys share one slot can be refused", ret.Pos()
		}
	})
	r.Check(bad == "" && n >= 4, "buildBisyncReplayUnit/refusal-reasons", badPos, "%s (refusing paths=%d)", bad, n)
}

// isSeenFlag: a loop-carried boolean whose only definitions are the constants
// false (initially) and true.
func isSeenFlag(ph *ssa.Phi) bool {
	hasT, hasF := false, false
	seen := map[*ssa.Phi]bool{}
	ok := true
	var walk func(p *ssa.Phi)
	walk = func(p *ssa.Phi) {
		if seen[p] {
			return
		}
		seen[p] = true
		for _, e := range p.Edges {
			if q, isPhi := e.(*ssa.Phi); isPhi {
				walk(q)
				continue
			}
			// a constant, or what a helper that only returns constants there hands back (a preset decided
			// before the loop)
			vals := []ssa.Value{e}
			if x, isE := e.(*ssa.Extract); isE {
				if c, isCall := x.Tuple.(*ssa.Call); isCall {
					if g := c.Call.StaticCallee(); g != nil && len(g.Blocks) > 0 {
						vals = nil
						for _, in := range core.OwnInstrs(g) {
							if ret, isRet := in.(*ssa.Return); isRet && x.Index < len(ret.Results) {
								vals = append(vals, ret.Results[x.Index])
							}
						}
					}
				}
			}
			for _, v := range vals {
				b, isC := core.ConstBool(v)
				if !isC {
					ok = false
					continue
				}
				if b {
					hasT = true
				} else {
					hasF = true
				}
			}
		}
	}
	walk(ph)
	return ok && hasT && hasF
}


// indexCoversFrom: idx is the variable of `for i := from; i < len(s); i++`.
func indexCoversFrom(idx ssa.Value, from int64, s ssa.Value) bool {
	ph, ok := idx.(*ssa.Phi)
	if !ok || len(ph.Edges) != 2 {
		return false
	}
	head := ph.Block()
	init, step := false, false
	for i, e := range ph.Edges {
		if head.Dominates(head.Preds[i]) {
			if b, isB := e.(*ssa.BinOp); isB && b.Op == token.ADD && b.X == ssa.Value(ph) && isConstInt(1)(b.Y) {
				step = true
			}
		} else if k, isK := core.ConstInt(e); isK && k == from {
			init = true
		}
	}
	if !init || !step || len(head.Instrs) == 0 {
		return false
	}
	iff, ok := head.Instrs[len(head.Instrs)-1].(*ssa.If)
	if !ok {
		return false
	}
	c, ok := core.AsCmp(iff.Cond, true)
	if !ok || c.Op != token.LSS || c.X != ssa.Value(ph) {
		return false
	}
	call, ok := core.Unwrap(c.Y).(*ssa.Call)
	if !ok {
		return false
	}
	b, ok := call.Call.Value.(*ssa.Builtin)
	return ok && b.Name() == "len" && len(call.Call.Args) == 1 && call.Call.Args[0] == s
}

// ---------------------------------------------------------------- R18.9 the slot-tag table is read only after it was built

// ruleSlotTagTablePublished: control keys hash to the unit's slot because
// BisyncSlotTag(slot) returns a tag that hashes there. The table of tags is
// built lazily; a reader that does not wait for the build to finish gets the
// empty tag, its keys become "...:{}" (whole-key hashing) and land in an
// unrelated slot. Every read of the table outside its builder must therefore
// be ordered after the build by sync.Once.Do(builder) (which returns to every
// caller only when the builder has run), or the table must be filled by the
// package initialiser.
func ruleSlotTagTablePublished(w *core.World, r *core.Report) {
	f := fn(w, r, "pkg/redis/checkpoint.BisyncSlotTag")
	if f == nil {
		return
	}
	tableOf := func(in ssa.Instruction) *ssa.Global {
		ia, ok := in.(*ssa.IndexAddr)
		if !ok {
			return nil
		}
		g, _ := ia.X.(*ssa.Global)
		if g == nil {
			return nil
		}
		if p, ok := g.Type().Underlying().(*types.Pointer); ok {
			switch e := p.Elem().Underlying().(type) {
			case *types.Array:
				if b, isB := e.Elem().Underlying().(*types.Basic); isB && b.Info()&types.IsString != 0 {
					return g
				}
			}
		}
		return nil
	}
	n := 0
	for _, in := range core.OwnInstrs(f) {
		tab := tableOf(in)
		if tab == nil {
			continue
		}
		n++
		// who writes the table
		var builders []*ssa.Function
		for _, g := range w.FuncsIn("pkg/redis/checkpoint") {
			for _, i2 := range core.OwnInstrs(g) {
				if t2 := tableOf(i2); t2 == tab {
					for _, ref := range *i2.(*ssa.IndexAddr).Referrers() {
						if st, ok := ref.(*ssa.Store); ok && st.Addr == i2.(ssa.Value) {
							builders = append(builders, g)
						}
					}
				}
			}
		}
		ok := false
		for _, b := range builders {
			if b.Name() == "init" || b == f {
				continue
			}
			for _, s := range core.SitesNamed(f, false, "(*sync.Once).Do") {
				a := s.Common().Args
				if len(a) >= 1 {
					fnArg := core.Unwrap(a[len(a)-1])
					if fv, isF := fnArg.(*ssa.Function); isF && fv == b && core.Dominates(s.Instr, in) {
						ok = true
					}
					if mc, isMC := fnArg.(*ssa.MakeClosure); isMC && mc.Fn == ssa.Value(b) && core.Dominates(s.Instr, in) {
						ok = true
					}
				}
			}
		}
		if len(builders) > 0 {
			allInit := true
			for _, b := range builders {
				if b.Name() != "init" {
					allInit = false
				}
			}
			if allInit {
				ok = true
			}
		}
		r.Check(ok, "BisyncSlotTag/table-read-after-build", in.Pos(), "the slot-tag table is read without being ordered after its build by sync.Once.Do(builder): a caller that arrives while another one is still filling the table reads an empty tag, and its control keys hash outside the unit's slot")
	}
	if n == 0 {
		r.OK("BisyncSlotTag/table-read-after-build", f.Pos(), "no lazily built table")
	}
}

// ---------------------------------------------------------------- R18.10 the relaxed slot mode is for non-cluster targets only

// ruleSlotModeByTargetKind: a replay unit is checked for "one slot" and tagged
// with the slot of its keys unless bisyncSlotMode says otherwise; the relaxed
// mode (a forced slot 0, cross-slot transactions accepted) exists for
// stand-alone targets. It must be selected by the kind of the target and by
// nothing else: on every path that returns the relaxed mode the target was
// tested not to be a cluster. Tied to anything narrower (transaction capability,
// a flag), a cluster target gets units whose slot is not HASH_SLOT of their keys.
func ruleSlotModeByTargetKind(w *core.World, r *core.Report) {
	f := fn(w, r, "(*syncer.RedisOutput).bisyncSlotMode")
	if f == nil {
		return
	}
	isCluster := func(v ssa.Value) bool {
		c, ok := core.Unwrap(v).(*ssa.Call)
		return ok && strings.HasSuffix(core.ResolveCall(c).Name, ").IsCluster")
	}
	bad := ""
	var pos token.Pos = f.Pos()
	relaxed, strict := 0, 0
	okEnum := core.EnumPathsN(f.Blocks[0], 0, 100000, 1, func(p *core.Path) {
		ret, isRet := p.End.(*ssa.Return)
		if !isRet || ret.Parent() != f || bad != "" {
			return
		}
		rel := false
		for _, in := range p.Instrs {
			st, ok := in.(*ssa.Store)
			if !ok {
				continue
			}
			fa, ok := st.Addr.(*ssa.FieldAddr)
			if !ok || !strings.HasSuffix(core.TypeName(fa.X.Type()), "bisyncSlotMode") {
				continue
			}
			switch core.FieldName(fa) {
			case "allowCrossSlot":
				if b, isB := core.ConstBool(p.Resolve(st.Val)); !isB || b {
					rel = true
				}
			case "forceSlot":
				if !core.IsNilConst(p.Resolve(st.Val)) {
					rel = true
				}
			}
		}
		if !rel {
			strict++
			return
		}
		relaxed++
		if !pathAssumed(p, isCluster, false) {
			bad, pos = "the relaxed slot mode (forced slot, cross-slot accepted) is returned on a path that did not establish that the target is not a cluster", ret.Pos()
		}
	})
	if !okEnum {
		r.Undecided("bisyncSlotMode/by-target-kind", f.Pos(), "too many paths")
		return
	}
	r.Check(bad == "" && relaxed > 0 && strict > 0, "bisyncSlotMode/by-target-kind", pos, "%s (relaxed paths=%d, strict paths=%d)", bad, relaxed, strict)
}

// ---------------------------------------------------------------- R18.11 keys one node resolved are used, whatever another node answered

// ruleResolvedKeysWin: for a command outside the static key table the target
// nodes are asked (COMMAND GETKEYS) until one answers. Once a node has answered,
// the keys are known; an error another node gave before that does not make them
// unknown. The resolver may report an error only on a path that established that
// no node answered — otherwise a command whose keys share one slot is refused and
// the replay stops on it for good.
func ruleResolvedKeysWin(w *core.World, r *core.Report) {
	f := fn(w, r, "syncer.resolveBisyncCommandKeys")
	if f == nil {
		return
	}
	// the "a node has answered" flag: a bool shared with the callback, which sets it to true
	var found *ssa.Alloc
	for _, g := range core.DeepFuncs(f) {
		if g == f {
			continue
		}
		for _, in := range core.OwnInstrs(g) {
			st, ok := in.(*ssa.Store)
			if !ok {
				continue
			}
			if b, isB := core.ConstBool(st.Val); !isB || !b {
				continue
			}
			if c := core.Cell(st.Addr); c != nil && c.Parent() == f {
				found = c
			}
		}
	}
	var iter ssa.Instruction
	for _, s := range core.Sites(f, false) {
		if s.Instr.Parent() == f && s.Common().IsInvoke() && s.Method == "IterateNodes" {
			iter = s.Instr
		}
	}
	// ... or a field of a collector object whose method is handed to the iteration as the callback
	var foundField *ssa.FieldAddr
	if found == nil && iter != nil {
		if mc, ok := iter.(ssa.CallInstruction).Common().Args[0].(*ssa.MakeClosure); ok && len(mc.Bindings) == 1 {
			if bound, isFn := mc.Fn.(*ssa.Function); isFn && bound.Synthetic != "" {
				for _, in := range core.OwnInstrs(bound) {
					c, isCall := in.(*ssa.Call)
					if !isCall || c.Call.StaticCallee() == nil {
						continue
					}
					m := c.Call.StaticCallee()
					for _, g := range core.DeepFuncs(m) {
						for _, in2 := range core.OwnInstrs(g) {
							st, isSt := in2.(*ssa.Store)
							if !isSt {
								continue
							}
							if b, isB := core.ConstBool(st.Val); !isB || !b {
								continue
							}
							if fa, isFa := st.Addr.(*ssa.FieldAddr); isFa && len(m.Params) > 0 && core.Unwrap(fa.X) == ssa.Value(m.Params[0]) {
								foundField = fa
							}
						}
					}
				}
			}
		}
	}
	// ... or there is no flag at all and "a node answered" is "the collected key list is not empty"
	var resolvedField *ssa.FieldAddr
	if found == nil && foundField == nil && iter != nil {
		if mc, ok := iter.(ssa.CallInstruction).Common().Args[0].(*ssa.MakeClosure); ok && len(mc.Bindings) == 1 {
			if bound, isFn := mc.Fn.(*ssa.Function); isFn && bound.Synthetic != "" {
				for _, in := range core.OwnInstrs(bound) {
					c, isCall := in.(*ssa.Call)
					if !isCall || c.Call.StaticCallee() == nil {
						continue
					}
					m := c.Call.StaticCallee()
					for _, in2 := range core.OwnInstrs(m) {
						st, isSt := in2.(*ssa.Store)
						if !isSt {
							continue
						}
						fa, isFa := st.Addr.(*ssa.FieldAddr)
						if isFa && len(m.Params) > 0 && core.Unwrap(fa.X) == ssa.Value(m.Params[0]) && core.DependsOn(st.Val, isResultOf("pkg/redis/client/common.Strings", 0)) {
							resolvedField = fa
						}
					}
				}
			}
		}
	}
	if (found == nil && foundField == nil && resolvedField == nil) || iter == nil {
		r.Undecided("resolveBisyncCommandKeys/resolved-keys-win", f.Pos(), "the node iteration or its 'answered' flag was not found")
		return
	}
	isResolvedLen := func(v ssa.Value) bool {
		c, ok := core.Unwrap(v).(*ssa.Call)
		if !ok || !isBuiltin(c, "len") || resolvedField == nil {
			return false
		}
		ld, ok := core.Unwrap(c.Call.Args[0]).(*ssa.UnOp)
		if !ok || ld.Op != token.MUL {
			return false
		}
		fa, ok := ld.X.(*ssa.FieldAddr)
		return ok && fa.Field == resolvedField.Field && types.Identical(recordOf(fa), recordOf(resolvedField))
	}
	isFound := func(v ssa.Value) bool {
		ld, ok := core.Unwrap(v).(*ssa.UnOp)
		if !ok || ld.Op != token.MUL {
			return false
		}
		if foundField != nil {
			fa, isFa := ld.X.(*ssa.FieldAddr)
			return isFa && fa.Field == foundField.Field && types.Identical(recordOf(fa), recordOf(foundField))
		}
		return found != nil && core.Cell(ld.X) == found
	}
	bad := ""
	var pos token.Pos = f.Pos()
	n := 0
	okEnum := core.EnumPathsN(f.Blocks[0], 0, 100000, 1, func(p *core.Path) {
		ret, isRet := p.End.(*ssa.Return)
		if !isRet || ret.Parent() != f || len(ret.Results) != 3 || bad != "" {
			return
		}
		after := false
		for _, in := range p.Instrs {
			if in == iter {
				after = true
			}
		}
		if os.Getenv("GUNYU_DEBUG") != "" {
			fmt.Println("DEBUG r18.11 ret", w.Pos(ret.Pos()), "after", after, "nil", pathNil(p, ret.Results[2]), p.Resolve(ret.Results[2]).String())
		}
		if !after || pathNil(p, ret.Results[2]) {
			return
		}
		n++
		seen := false
		for _, fct := range factsBetween(p, iter, ret) {
			if !fct.Val && isFound(p.Resolve(fct.Cond)) {
				seen = true
			}
			if fct.Val {
				if u, ok := core.Unwrap(p.Resolve(fct.Cond)).(*ssa.UnOp); ok && u.Op == token.NOT && isFound(u.X) {
					seen = true
				}
			}
		}
		if !seen && resolvedField != nil {
			seen = p.Holds(token.LEQ, isResolvedLen, isConstInt(0)) || p.Holds(token.EQL, isResolvedLen, isConstInt(0))
		}
		if !seen {
			bad, pos = "an error is reported after the nodes were asked on a path that did not establish that no node answered: keys that one node resolved are thrown away because another node failed, and a single-slot command is refused", ret.Pos()
		}
	})
	if !okEnum {
		r.Undecided("resolveBisyncCommandKeys/resolved-keys-win", f.Pos(), "too many paths")
		return
	}
	r.Check(bad == "" && n > 0, "resolveBisyncCommandKeys/resolved-keys-win", pos, "%s", bad)
}

// passesOn: every return of g is `return target(…)` — the results of one call of target (or of another such
// helper), in order and unchanged.
func passesOn(g *ssa.Function, target string, depth int) bool {
	if g == nil || len(g.Blocks) == 0 || depth > 3 {
		return false
	}
	n := 0
	for _, in := range core.OwnInstrs(g) {
		ret, ok := in.(*ssa.Return)
		if !ok {
			continue
		}
		n++
		var call *ssa.Call
		for i, rv := range ret.Results {
			e, isE := rv.(*ssa.Extract)
			if !isE || e.Index != i {
				return false
			}
			c, isC := e.Tuple.(*ssa.Call)
			if !isC || (call != nil && c != call) {
				return false
			}
			call = c
		}
		if call == nil || call.Block() != ret.Block() {
			return false
		}
		callee := call.Call.StaticCallee()
		if callee == nil || callee.Signature.Results().Len() != len(ret.Results) {
			return false
		}
		if core.FuncName(callee) != target && !passesOn(callee, target, depth+1) {
			return false
		}
	}
	return n > 0
}

// ---------------------------------------------------------------- R18.12 the refusal is the replay's result before the unit channel is closed

// ruleRefusalPublishedBeforeClose: "stops the replay with an error". The parser
// refuses a unit by returning an error; the senders end cleanly (nil) when they
// find the unit channel closed, and the replay's result is whatever is handed
// to the wait-closer first. A parser that closes the channel before its error
// has been handed over (a plain `defer close(unitBuf)`, the caller publishing
// the error after the return) loses the race now and then: the refusal ends
// the replay as a clean stop (W27). In parseAofReplayUnits every close of the
// unit channel must, on the paths where the function's error result is not
// nil, come after WaitCloser.Close(<that error>).
func ruleRefusalPublishedBeforeClose(w *core.World, r *core.Report) {
	f := fn(w, r, "(*syncer.RedisOutput).parseAofReplayUnits")
	if f == nil {
		return
	}
	isUnitChan := func(t types.Type) bool {
		ch, ok := t.Underlying().(*types.Chan)
		return ok && strings.HasSuffix(core.TypeName(ch.Elem()), "bisyncReplayUnit")
	}
	isErrCell := func(v ssa.Value) bool {
		// the named error result seen from a deferred closure (a captured variable), or from the parser itself
		ld, ok := core.Unwrap(v).(*ssa.UnOp)
		if !ok || ld.Op != token.MUL {
			return false
		}
		pt, ok := ld.X.Type().Underlying().(*types.Pointer)
		if !ok || !types.Identical(pt.Elem(), types.Universe.Lookup("error").Type()) {
			return false
		}
		switch ld.X.(type) {
		case *ssa.FreeVar, *ssa.Alloc:
			return true
		}
		return false
	}
	n := 0
	for _, g := range core.DeepFuncs(f) {
		for _, in := range core.OwnInstrs(g) {
			var args []ssa.Value
			var val ssa.Value
			deferred := false
			switch x := in.(type) {
			case *ssa.Call:
				val, args = x.Call.Value, x.Call.Args
			case *ssa.Defer:
				val, args, deferred = x.Call.Value, x.Call.Args, true
			default:
				continue
			}
			b, ok := val.(*ssa.Builtin)
			if !ok || b.Name() != "close" || len(args) != 1 || !isUnitChan(args[0].Type()) {
				continue
			}
			n++
			if deferred {
				r.Fail("parseAofReplayUnits/refusal-published-before-close", in.Pos(), "the unit channel is closed by a plain deferred close: it runs when the parser returns, before anybody has handed the parser's error to the wait-closer; a sender that sees the closed channel ends with nil first, and the refused unit stops the replay without an error")
				continue
			}
			bad := ""
			paths := 0
			okEnum := core.EnumPathsN(g.Blocks[0], 0, 100000, 1, func(p *core.Path) {
				at := -1
				for i, pi := range p.Instrs {
					if pi == in {
						at = i
					}
				}
				if at < 0 || bad != "" {
					return
				}
				paths++
				failed, decided := false, false
				for _, fct := range p.Conds {
					c, isCmp := core.FactCmp(fct)
					if !isCmp || !core.IsNilConst(c.Y) || !isErrCell(c.X) {
						continue
					}
					decided = true
					failed = c.Op == token.NEQ
				}
				if decided && !failed {
					return
				}
				published := false
				for _, pi := range p.Instrs[:at] {
					ci, isCall := pi.(*ssa.Call)
					if !isCall || !ci.Call.IsInvoke() || ci.Call.Method.Name() != "Close" || len(ci.Call.Args) != 1 {
						continue
					}
					if strings.HasSuffix(core.TypeName(ci.Call.Value.Type()), "WaitCloser") && isErrCell(ci.Call.Args[0]) {
						published = true
					}
				}
				if !published {
					bad = "the unit channel is closed on a path where the parser's error may be set and has not been handed to the wait-closer: a sender that sees the closed channel ends with nil first, and the refused unit stops the replay without an error"
				}
			})
			if !okEnum {
				r.Undecided("parseAofReplayUnits/refusal-published-before-close", in.Pos(), "too many paths")
				continue
			}
			r.Check(bad == "" && paths > 0, "parseAofReplayUnits/refusal-published-before-close", in.Pos(), "%s", bad)
		}
	}
	if n == 0 {
		r.Fail("parseAofReplayUnits/refusal-published-before-close", f.Pos(), "the parser does not close the unit channel: the senders would never end")
	}
}
