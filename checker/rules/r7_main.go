package rules

import (
	"go/constant"
	"go/token"
	"strings"

	"gunyucheck/core"

	"golang.org/x/tools/go/ssa"
)

// ---------------------------------------------------------------- R05.17 a segment with a writer is marked as being written

// ruleWriterImpliesMarker is the converse of R08.8. With verification on, a
// reader checks a segment's size and checksum against the segment's header
// unless the segment is marked "still being written" (negative size); the
// header of a segment that is being written is a placeholder. A segment that
// is handed a writer without the marker is therefore refused as corrupted for
// as long as the writer lives, although every offset in it is reported valid
// (W34: the first segment of every log writer).
func ruleWriterImpliesMarker(w *core.World, r *core.Report) {
	negConst := func(v ssa.Value) bool {
		c, ok := core.Unwrap(v).(*ssa.Const)
		if !ok || c.Value == nil || c.Value.Kind() != constant.Int {
			return false
		}
		n, exact := constant.Int64Val(c.Value)
		return exact && n < 0
	}
	n := 0
	for _, f := range w.Funcs() {
		if f.Pkg == nil || !strings.HasSuffix(f.Pkg.Pkg.Path(), "pkg/store") {
			continue
		}
		if core.ExpandedInto(f) != nil {
			continue // a helper with one call site is read as part of its caller
		}
		// the segment may be built by a helper (expanded: its instructions count as the caller's, a call of it is
		// the value it returns)
		for _, in := range core.Instrs(f) {
			c, ok := in.(*ssa.Call)
			if !ok || core.ResolveCall(c).Name != "(*pkg/store.dataSetAof).SetWriter" || len(c.Call.Args) < 1 {
				continue
			}
			seg := core.Unwrap(c.Call.Args[0])
			n++
			marked := false
			for _, in2 := range core.Instrs(f) {
				switch x := in2.(type) {
				case *ssa.Store:
					fa, isFa := x.Addr.(*ssa.FieldAddr)
					if isFa && core.Unwrap(fa.X) == seg && core.FieldName(fa) == "size" && negConst(x.Val) {
						marked = true
					}
				case *ssa.Call:
					if core.ResolveCall(x).Name == "(*pkg/store.dataSetAof).SetSize" && len(x.Call.Args) == 2 && core.Unwrap(x.Call.Args[0]) == seg && negConst(x.Call.Args[1]) {
						marked = true
					}
				}
			}
			name := shortName(core.FuncName(f))
			if f.Parent() != nil {
				name = shortName(core.FuncName(f.Parent())) + "$closure"
			}
			r.Check(marked, name+"/writer-with-marker", in.Pos(), "a log segment is handed a writer without being marked 'still being written' (negative size): with verification on, a reader of that segment compares it with its placeholder header and is refused as corrupted, although the offsets in it are reported valid (and the input drops the whole cache on that error)")
		}
	}
	if n == 0 {
		r.Fail("writer-with-marker", token.NoPos, "no place hands a writer to a log segment")
	}
}
