package rules

import (
	"fmt"
	"go/constant"
	"go/token"
	"go/types"
	"os"
	"sort"
	"strings"

	"gunyucheck/core"

	"golang.org/x/tools/go/ssa"
)

func init() {
	All["C01"] = c01
	core.Explanations["C01"] = "Decides necessary structural conditions of 'incremental replay applies every source write once, in order, in the right DB': " +
		"(R01.1) the command channel has one producer (the parser goroutine, started once) and one consumer (the sender, called once); (R01.2) the sender's queue is extended only by tail append, iterated forward with Put(cmd,args...) of the queued element, and reset only after a successful Exec/Dispatch; " +
		"(R01.3) every batcher comes from the one connection parameter; (R01.4) nothing is invented: constant commands put by the sender are {multi, exec, hset on the checkpoint key}, the only synthesised queue item is the keep-alive ping, and what the parser sends is the decoded command with FilterCmdKey's arguments or a SELECT built by the helper; " +
		"(R01.5) every path of the parser loop and of a sender iteration that drops an item does so for a documented reason (FilterDb/FilterCmd/FilterCmdKey, ping, unchanged SELECT, sentinel hello, transaction brackets); (R01.6) database mapping fields are read only in selectDB and a SELECT is emitted only on its changed edge with its result; " +
		"(R01.7) the non-replayable command table is inserted unconditionally, contains the documented administrative set and is disjoint from the key-addressed data commands. Not decided: equality of the target's executed sequence with the stream for all timings."
}

func c01(w *core.World, r *core.Report) {
	c := newSenderCtx(w, r)

	r.Rule("R01.1", "single producer / single consumer on the command channel created in sendAof", 3)
	ruleSPSC(w, r)

	r.Rule("R01.2", "FIFO queue discipline: tail append only, forward iteration with Put(elem.Cmd, elem.Args...), reset only after a successful Exec/Dispatch", 4)
	if c != nil {
		ruleQueueDiscipline(w, r, c)
	}

	r.Rule("R01.3", "every batcher of the sender is created on the connection parameter", 1)
	if c != nil {
		conn := paramOf(c.main, "client.Redis", "conn")
		for _, g := range core.DeepFuncs(c.main) {
			for _, s := range core.SitesNamed(g, false, "*Redis.NewBatcher") {
				r.Check(conn != nil && isParam(conn)(s.Recv()), "sendCmdsBatch/NewBatcher", s.Pos(), "batcher created on something other than the sender's connection parameter")
			}
		}
	}

	r.Rule("R01.9", "the configured target database (0 included) is what the replay paths are given; -1 only when none was configured", 1)
	ruleTargetDbConfigured(w, r)
	r.Rule("R12.4", "the arguments replayed are the bytes the source sent: bulk framing of the decoder and ParseArgs slicing (shared with C12)", 2)
	ruleBulkFraming(w, r)
	r.Rule("R12.2", "the stream is read by the decoder only (shared with C12)", 3)
	ruleSoleReader(w, r)
	r.Rule("R01.4", "nothing invented: enumerated constant commands, enumerated synthesised items, parser sends only decoded/filter-projected commands", 6)
	if c != nil {
		ruleNothingInventedSender(w, r, c)
	}
	ruleNothingInventedParser(w, r)

	r.Rule("R01.5", "items are dropped only for documented reasons (all paths of the parser loop and of a sender iteration)", 2)
	ruleParserRemovals(w, r)
	if c != nil {
		ruleSenderRemovals(w, r, c)
	}

	r.Rule("R01.11", "the database filter never removes a transaction bracket: a command dropped for the filtered database alone is known to be neither MULTI nor EXEC", 1)
	ruleBypassKeepsBrackets(w, r)

	r.Rule("R01.6", "database mapping is decided in selectDB only; SELECT is emitted on its changed edge with its result", 4)
	ruleDbMapping(w, r)
	ruleDbTracking(w, r)

	r.Rule("R01.10", "a SELECT of the source always takes the database-decision branch: it reaches the generic forwarding only with a negative number", 1)
	ruleSelectNeverForwardedRaw(w, r)

	r.Rule("R01.8", "transaction brackets are classified by the command table in every state (see R09.3)", 6)
	ruleTxnStateMachine(w, r)

	r.Rule("R01.7", "non-replayable command table: inserted unconditionally, contains the documented set, disjoint from key-addressed data commands", 3)
	ruleNoRouteTable(w, r)
	r.Rule("R19.10", "a command that cannot be routed poisons the batch: the sender ignores Put's result, so an unrecorded refusal silently drops the command while the rest of the batch is sent and the position moves past it (shared with C19)", 6)
	ruleBatchPoisoned(w, r)
	r.Rule("R10.16", "merging configured slot ranges is a union: a write on a key whose slot is configured in is not withheld (shared with C10)", 2)
	ruleRangeMergeIsUnion(w, r)
	r.Rule("R10.18", "the rebuilt slot list does not overwrite a stored range before it was read: a write on a key whose slot is configured in is not withheld (shared with C10)", 1)
	ruleRebuiltListStorage(w, r)
	// seed C01-14: with a slot filter configured, which stream commands are "configured out" is decided by the slot
	// function; a KeyToSlot that is not HASH_SLOT drops writes of a whitelisted slot and forwards configured-out ones
	// (R11.1-R11.5, shared with C11)
	c11(w, r)
}

// ---------------------------------------------------------------- R01.1

func ruleSPSC(w *core.World, r *core.Report) {
	f := fn(w, r, "(*syncer.RedisOutput).sendAof")
	if f == nil {
		return
	}
	var mk *ssa.MakeChan
	for _, in := range core.Instrs(f) {
		if m, ok := in.(*ssa.MakeChan); ok && strings.HasSuffix(m.Type().String(), "syncer.cmdExecution") {
			if mk != nil {
				r.Fail("sendAof/channel", m.Pos(), "more than one command channel is created")
				return
			}
			mk = m
		}
	}
	if mk == nil {
		r.Unresolved("sendAof/channel", "command channel creation not found")
		return
	}
	// all uses of the channel value: through its cell and closures, through helpers of the package it is
	// handed to (the helper's parameter is the channel) and through a struct field it is stored in (every
	// load of that field is the channel)
	alias := map[ssa.Value]bool{mk: true}
	isChan := func(v ssa.Value) bool {
		ok := false
		core.Walk(v, func(x ssa.Value) bool {
			if alias[x] {
				ok = true
			}
			return !ok
		})
		return ok
	}
	scan := map[*ssa.Function]bool{}
	async := map[*ssa.Function]bool{} // functions that do not run on sendAof's own goroutine
	var order []*ssa.Function
	add := func(g *ssa.Function, asyncRoot bool) {
		for _, d := range core.DeepFuncs(g) {
			if !scan[d] {
				scan[d] = true
				order = append(order, d)
			}
			if asyncRoot || d != g {
				async[d] = true
			}
		}
	}
	add(f, false)
	type fieldKey struct {
		t string
		i int
	}
	fields := map[fieldKey]bool{}
	for changed, iter := true, 0; changed && iter < 8; iter++ {
		changed = false
		for k := 0; k < len(order); k++ {
			g := order[k]
			for _, in := range core.OwnInstrs(g) {
				switch x := in.(type) {
				case ssa.CallInstruction:
					s := core.ResolveCall(x)
					h := s.Callee
					if h == nil || h.Parent() != nil || len(h.Blocks) == 0 || !core.Transparent(h) {
						continue
					}
					args := s.Common().Args
					off := len(args) - len(h.Params)
					for i, a := range args {
						if _, isCh := a.Type().Underlying().(*types.Chan); isCh && isChan(a) && i-off >= 0 && off >= 0 && !alias[h.Params[i-off]] {
							alias[h.Params[i-off]] = true
							_, isGo := x.(*ssa.Go)
							add(h, isGo || async[g])
							changed = true
						}
					}
				case *ssa.Store:
					if fa, ok := x.Addr.(*ssa.FieldAddr); ok && isChan(x.Val) {
						if _, isCh := x.Val.Type().Underlying().(*types.Chan); isCh {
							fk := fieldKey{core.TypeName(fa.X.Type()), fa.Field}
							if !fields[fk] {
								fields[fk] = true
								changed = true
							}
						}
					}
				}
			}
		}
		if len(fields) > 0 {
			for _, h := range w.FuncsIn("syncer") {
				for _, in := range core.OwnInstrs(h) {
					var fk fieldKey
					var v ssa.Value
					switch x := in.(type) {
					case *ssa.UnOp:
						if fa, ok := x.X.(*ssa.FieldAddr); ok && x.Op == token.MUL {
							fk, v = fieldKey{core.TypeName(fa.X.Type()), fa.Field}, x
						}
					case *ssa.Field:
						fk, v = fieldKey{core.TypeName(x.X.Type()), x.Field}, x
					}
					if v != nil && fields[fk] && !alias[v] {
						alias[v] = true
						if !scan[h] {
							// a method of the carrier struct: it runs wherever its value is started
							root := h
							for root.Parent() != nil {
								root = root.Parent()
							}
							add(root, true)
						}
						changed = true
					}
				}
			}
		}
	}
	producers, consumers, other := 0, 0, 0
	var ppos, cpos token.Pos
	for _, g := range order {
		for _, in := range core.OwnInstrs(g) {
			switch x := in.(type) {
			case ssa.CallInstruction:
				s := core.ResolveCall(x)
				for i, a := range s.Common().Args {
					if _, isCh := a.Type().Underlying().(*types.Chan); !isCh || !isChan(a) {
						continue
					}
					switch s.Name {
					case "(*syncer.RedisOutput).parseAofCommand":
						producers++
						ppos = s.Pos()
						// must run in a goroutine of its own: not on sendAof's
						if !async[g] {
							r.Fail("sendAof/producer", s.Pos(), "the parser is called synchronously, not in its own goroutine")
						}
					case "(*syncer.RedisOutput).sendCmdsBatch":
						consumers++
						cpos = s.Pos()
						if _, isGo := x.(*ssa.Go); isGo || async[g] {
							r.Fail("sendAof/consumer", s.Pos(), "the sender must be called synchronously by sendAof")
						}
					default:
						if s.Name == "builtin.len" || s.Name == "builtin.cap" {
							continue
						}
						if h := s.Callee; h != nil && scan[h] {
							off := len(s.Common().Args) - len(h.Params)
							if i-off >= 0 && off >= 0 && alias[h.Params[i-off]] {
								continue // followed into the helper
							}
						}
						other++
						r.Fail("sendAof/channel-use", s.Pos(), "command channel handed to %s: a second producer or consumer breaks ordering", s.Name)
					}
				}
			case *ssa.Send:
				if isChan(x.Chan) {
					other++
					r.Fail("sendAof/channel-use", x.Pos(), "sendAof itself sends on the command channel")
				}
			case *ssa.UnOp:
				if x.Op == token.ARROW && isChan(x.X) {
					other++
					r.Fail("sendAof/channel-use", x.Pos(), "sendAof itself receives from the command channel")
				}
			case *ssa.Select:
				for _, st := range x.States {
					if isChan(st.Chan) {
						other++
						r.Fail("sendAof/channel-use", x.Pos(), "sendAof itself selects on the command channel")
					}
				}
			}
		}
	}
	r.Check(producers == 1, "sendAof/producer", ppos, "expected exactly one parser started on the channel, found %d", producers)
	r.Check(consumers == 1, "sendAof/consumer", cpos, "expected exactly one sender call on the channel, found %d", consumers)
	// inside the parser the channel is only sent on; inside the sender only received from in the main select
	if p := fn(w, r, "(*syncer.RedisOutput).parseAofCommand"); p != nil {
		sb := chanParam(p)
		bad := chanUses(p, sb, types.SendOnly)
		r.Check(len(bad) == 0, "parseAofCommand/channel-direction", p.Pos(), "the parser uses the command channel other than by sending: %v", bad)
	}
	if s := fn(w, r, senderName); s != nil {
		sb := chanParam(s)
		bad := chanUses(s, sb, types.RecvOnly)
		r.Check(len(bad) == 0, "sendCmdsBatch/channel-direction", s.Pos(), "the sender uses the command channel other than by receiving: %v", bad)
		// exactly one receive site
		n := 0
		for _, g := range core.DeepFuncs(s) {
			for _, in := range core.Instrs(g) {
				switch x := in.(type) {
				case *ssa.Select:
					for _, st := range x.States {
						if st.Dir == types.RecvOnly && isParam(sb)(st.Chan) {
							n++
						}
					}
				case *ssa.UnOp:
					if x.Op == token.ARROW && isParam(sb)(x.X) {
						n++
					}
				}
			}
		}
		r.Check(n == 1, "sendCmdsBatch/receive-sites", s.Pos(), "expected one receive site on the command channel, found %d (a second consumer site reorders items)", n)
	}
}

func chanParam(f *ssa.Function) *ssa.Parameter {
	for _, p := range f.Params {
		if ch, ok := p.Type().Underlying().(*types.Chan); ok && strings.HasSuffix(ch.Elem().String(), "cmdExecution") {
			return p
		}
	}
	return nil
}

// chanUses lists uses of the channel parameter that are not of direction dir.
func chanUses(f *ssa.Function, p *ssa.Parameter, dir types.ChanDir) []string {
	if p == nil {
		return []string{"channel parameter not found"}
	}
	var bad []string
	for _, g := range core.DeepFuncs(f) {
		for _, in := range core.Instrs(g) {
			switch x := in.(type) {
			case *ssa.Send:
				if isParam(p)(x.Chan) && dir != types.SendOnly {
					bad = append(bad, "send")
				}
			case *ssa.UnOp:
				if x.Op == token.ARROW && isParam(p)(x.X) && dir != types.RecvOnly {
					bad = append(bad, "receive")
				}
			case *ssa.Select:
				for _, st := range x.States {
					if isParam(p)(st.Chan) && st.Dir != dir {
						bad = append(bad, "select in the wrong direction")
					}
				}
			case ssa.CallInstruction:
				s := core.ResolveCall(x)
				for _, a := range s.Common().Args {
					if _, isCh := a.Type().Underlying().(*types.Chan); isCh && isParam(p)(a) {
						if s.Name == "builtin.close" && dir == types.SendOnly {
							continue
						}
						if s.Name == "builtin.len" || s.Name == "builtin.cap" {
							continue
						}
						// handed to a helper that itself uses it in the right direction only
						if g := s.Callee; g != nil && g.Parent() == nil && len(g.Blocks) > 0 && g != f {
							k := -1
							for i, ca := range s.Common().Args {
								if ca == a {
									k = i
								}
							}
							off := len(s.Common().Args) - len(g.Params)
							if k-off >= 0 && k-off < len(g.Params) && off >= 0 {
								if sub := chanUses(g, g.Params[k-off], dir); len(sub) == 0 {
									continue
								}
							}
						}
						bad = append(bad, "passed to "+s.Name)
					}
				}
			}
		}
	}
	return bad
}

// ---------------------------------------------------------------- R01.2

// forwardRangeIndex: v is `phi+1` where phi starts at -1 and is fed back by v.
func forwardRangeIndex(v ssa.Value) bool {
	b, ok := v.(*ssa.BinOp)
	if !ok || b.Op != token.ADD {
		return false
	}
	one, ok := core.ConstInt(b.Y)
	if !ok || one != 1 {
		return false
	}
	ph, ok := b.X.(*ssa.Phi)
	if !ok {
		return false
	}
	init := false
	for _, e := range ph.Edges {
		if k, ok := core.ConstInt(e); ok {
			if k != -1 {
				return false
			}
			init = true
			continue
		}
		if e != ssa.Value(b) {
			return false
		}
	}
	return init
}

// queueElem: v reads field `field` of an element `queue[i]`; returns the IndexAddr.
func (c *senderCtx) queueElem(v ssa.Value, field string) *ssa.IndexAddr {
	v = core.Unwrap(v)
	var base ssa.Value
	switch x := v.(type) {
	case *ssa.Field:
		if core.FieldName(x) != field {
			return nil
		}
		base = x.X
	case *ssa.UnOp:
		fa, ok := x.X.(*ssa.FieldAddr)
		if x.Op != token.MUL || !ok || core.FieldName(fa) != field {
			return nil
		}
		base = fa.X
	default:
		return nil
	}
	// base: IndexAddr itself, a load of it, or a local copy holding a load of it
	for i := 0; i < 4; i++ {
		switch b := base.(type) {
		case *ssa.IndexAddr:
			// the slice indexed: a load of the queue cell, also when it reached a helper with one call site as a
			// parameter (the parameter stands for the argument of that call)
			if ld, ok := core.Unwrap(b.X).(*ssa.UnOp); ok && ld.Op == token.MUL && core.Cell(ld.X) == c.queue {
				return b
			}
			return nil
		case *ssa.UnOp:
			if b.Op != token.MUL {
				return nil
			}
			base = b.X
		case *ssa.Alloc:
			st := core.CellStores(b)
			if len(st) != 1 {
				return nil
			}
			base = st[0].Val
		default:
			return nil
		}
	}
	return nil
}

func ruleQueueDiscipline(w *core.World, r *core.Report, c *senderCtx) {
	// (a) every store to the queue cell
	var runs []ssa.Value
	for _, s := range core.Sites(c.once, false) {
		if strings.HasSuffix(s.Name, "CmdBatcher.Exec") || strings.HasSuffix(s.Name, "CmdBatcher.Dispatch") {
			runs = append(runs, s.Value())
		}
	}
	for _, st := range core.CellStores(c.queue) {
		f := st.Parent()
		cons := "cmdQueue/store-in-" + roleOf(c, f)
		switch v := st.Val.(type) {
		case *ssa.MakeSlice:
			if f == c.main {
				r.Check(!inLoop(st.Block(), c.head), cons+"/init", st.Pos(), "the queue is re-created inside the sender loop: queued items are lost")
				continue
			}
			r.Check(f == c.once && afterSuccessfulRun(st.Block(), runs), cons+"/reset", st.Pos(), "the queue is reset on a path where Exec/Dispatch did not succeed (a failed batch would be dropped instead of retried)")
		case *ssa.Slice:
			ld, ok := v.X.(*ssa.UnOp)
			hi, hok := core.ConstInt(v.High)
			isReset := ok && ld.Op == token.MUL && core.Cell(ld.X) == c.queue && v.Low == nil && hok && hi == 0
			if !isReset {
				r.Fail(cons+"/reslice", st.Pos(), "the queue is re-sliced other than [:0]: items are removed or reordered")
				continue
			}
			r.Check(f == c.once && afterSuccessfulRun(st.Block(), runs), cons+"/reset", st.Pos(), "the queue is reset on a path where Exec/Dispatch did not succeed (a failed batch would be dropped instead of retried)")
		case *ssa.Call:
			if _, ok := c.appendedElems(v); ok && (f == c.main || c.isLoopHelper(f)) {
				r.OK(cons+"/append", st.Pos(), "")
			} else {
				r.Fail(cons+"/append", st.Pos(), "the queue is assigned something other than append(queue, item...) in the sender loop")
			}
		default:
			r.Fail(cons, st.Pos(), "unrecognised assignment to the command queue (%s)", st.Val.String())
		}
	}
	// (b) forward iteration and Put of the element
	n := 0
	for _, s := range core.SitesNamed(c.once, false, "*CmdBatcher.Put") {
		if _, isConst := core.CmdName(s); isConst {
			continue
		}
		n++
		a := s.Args()
		var e1, e2 *ssa.IndexAddr
		if len(a) == 2 {
			e1, e2 = c.queueElem(a[0], "Cmd"), c.queueElem(a[1], "Args")
		}
		ok := e1 != nil && e1 == e2 && forwardRangeIndex(e1.Index)
		r.Check(ok, "sendFuncOnce/queue-put", s.Pos(), "the batch must be filled by Put(elem.Cmd, elem.Args...) for each queue element in forward order")
	}
	if n == 0 {
		r.Fail("sendFuncOnce/queue-put", c.once.Pos(), "no Put of queued commands found")
	}
}

func roleOf(c *senderCtx, f *ssa.Function) string {
	switch f {
	case c.main:
		return "loop"
	case c.once:
		return "sendFuncOnce"
	case c.send:
		return "sendFunc"
	}
	return "other-closure"
}

// afterSuccessfulRun: block b is dominated by the err==nil edge of the test
// of the Exec/Dispatch result.
func afterSuccessfulRun(b *ssa.BasicBlock, runs []ssa.Value) bool {
	if len(runs) == 0 {
		return false
	}
	isErr := func(v ssa.Value) bool {
		// v resolves only to error results of the run calls
		n, ok := 0, true
		seen := map[ssa.Value]bool{}
		var rec func(v ssa.Value)
		rec = func(v ssa.Value) {
			if seen[v] {
				return
			}
			seen[v] = true
			switch x := v.(type) {
			case *ssa.Phi:
				for _, e := range x.Edges {
					rec(e)
				}
			case *ssa.Extract:
				rec(x.Tuple)
			case *ssa.Call:
				hit := false
				for _, ru := range runs {
					if ru == ssa.Value(x) {
						hit = true
					}
				}
				if hit {
					n++
				} else {
					ok = false
				}
			case *ssa.UnOp:
				if x.Op == token.MUL {
					if c := core.Cell(x.X); c != nil {
						for _, st := range core.CellStores(c) {
							rec(st.Val)
						}
						return
					}
				}
				ok = false
			default:
				if !core.IsNilConst(v) {
					ok = false
				}
			}
		}
		rec(v)
		return ok && n > 0
	}
	return core.NilFact(b, isErr, true)
}

// ---------------------------------------------------------------- R01.4

func ruleNothingInventedSender(w *core.World, r *core.Report, c *senderCtx) {
	allowedMethods := map[string]bool{"NewBatcher": true, "Put": true, "Len": true, "Dispatch": true, "Exec": true, "Receive": true}
	for _, g := range core.DeepFuncs(c.main) {
		for _, s := range core.Sites(g, false) {
			if !s.Common().IsInvoke() {
				continue
			}
			it := core.TypeName(s.Common().Value.Type())
			if !strings.HasSuffix(it, "client.Redis") && !strings.HasSuffix(it, "common.CmdBatcher") {
				continue
			}
			r.CallSites++
			if !allowedMethods[s.Method] {
				r.Fail("sendCmdsBatch/target-call", s.Pos(), "%s on the target connection inside the sender: commands must reach the target only through the batch (Put … Exec/Dispatch)", s.Method)
				continue
			}
			if s.Method != "Put" {
				continue
			}
			cmd, isConst := core.CmdName(s)
			if !isConst {
				continue // the queue Put, checked by R01.2
			}
			switch cmd {
			case "multi", "exec":
				el, ok := core.CmdArgs(s)
				r.Check(ok && len(el) == 0, "sendCmdsBatch/put-"+cmd, s.Pos(), "%s must carry no arguments", cmd)
			case "hset":
				el, ok := core.CmdArgs(s)
				okKey := ok && len(el) >= 3 && core.IsFieldLoad(core.Unwrap(el[0]), "CheckpointInfo", "Key")
				r.Check(okKey, "sendCmdsBatch/put-hset", s.Pos(), "the only HSET the sender may add writes the checkpoint key")
			default:
				r.Fail("sendCmdsBatch/put-const", s.Pos(), "the sender puts a constant %q command that is not part of the source stream", cmd)
			}
		}
	}
	// synthesised queue items
	for _, in := range core.Instrs(c.main) {
		el, ok := c.appendedElems(in)
		if !ok {
			continue
		}
		for _, e := range el {
			if c.isItemVal(e) {
				r.OK("sendCmdsBatch/append-item", in.Pos(), "")
				continue
			}
			// a literal: every Cmd store must be the constant "ping" and Args must not be set
			lit := false
			if ld, ok := core.Unwrap(e).(*ssa.UnOp); ok && ld.Op == token.MUL {
				if a, ok := ld.X.(*ssa.Alloc); ok {
					lit = true
					for _, ref := range *a.Referrers() {
						fa, ok := ref.(*ssa.FieldAddr)
						if !ok {
							continue
						}
						for _, rr := range *fa.Referrers() {
							st, ok := rr.(*ssa.Store)
							if !ok {
								continue
							}
							switch core.FieldName(fa) {
							case "Cmd":
								if s, ok := core.ConstString(st.Val); !ok || s != "ping" {
									lit = false
								}
							case "Args":
								lit = false
							}
						}
					}
				}
			}
			r.Check(lit, "sendCmdsBatch/append-synth", in.Pos(), "the sender queues an item that is neither the received item nor the argument-less keep-alive ping")
		}
	}
}

// sentValues lists the values sent on channel parameter p in f.
func sentValues(f *ssa.Function, p *ssa.Parameter) (vals []ssa.Value, at []ssa.Instruction) {
	// sends made by a local closure on behalf of f (a "send or give up" helper): the value is the
	// closure's parameter, so what is really sent is the argument at each of its call sites
	for _, g := range core.DeepFuncs(f)[1:] {
		gv, _ := sentValuesIn(g, p)
		for _, v := range gv {
			v = core.Unwrap(v)
			if u, isLd := v.(*ssa.UnOp); isLd && u.Op == token.MUL {
				if cell := core.Cell(u.X); cell != nil {
					if sts := core.CellStores(cell); len(sts) == 1 {
						v = core.Unwrap(sts[0].Val)
					}
				}
			}
			k := -1
			for i, par := range g.Params {
				if ssa.Value(par) == v {
					k = i
				}
			}
			if k < 0 {
				continue
			}
			for _, s := range core.Sites(f, false) {
				if s.Callee == g && k < len(s.Common().Args) {
					vals = append(vals, s.Common().Args[k])
					at = append(at, s.Instr)
				}
			}
		}
	}
	// sends made by a named helper the channel is handed to: the value is one of its parameters
	for _, s := range core.Sites(f, false) {
		g := s.Callee
		if g == nil || g.Parent() != nil || len(g.Blocks) == 0 || g == f || s.Instr.Parent() != f {
			continue
		}
		args := s.Common().Args
		if len(args) != len(g.Params) {
			continue
		}
		kc := -1
		for i, a := range args {
			if isParam(p)(a) {
				kc = i
			}
		}
		if kc < 0 {
			continue
		}
		gv, _ := sentValuesIn(g, g.Params[kc])
		for _, v := range gv {
			v = core.Unwrap(v)
			for i, par := range g.Params {
				if ssa.Value(par) == v {
					vals = append(vals, args[i])
					at = append(at, s.Instr)
				}
			}
		}
	}
	v2, a2 := sentValuesIn(f, p)
	return append(vals, v2...), append(at, a2...)
}

func sentValuesIn(f *ssa.Function, p *ssa.Parameter) (vals []ssa.Value, at []ssa.Instruction) {
	for _, in := range core.Instrs(f) {
		switch x := in.(type) {
		case *ssa.Send:
			if isParam(p)(x.Chan) {
				vals = append(vals, x.X)
				at = append(at, x)
			}
		case *ssa.Select:
			for _, st := range x.States {
				if st.Dir == types.SendOnly && isParam(p)(st.Chan) {
					vals = append(vals, st.Send)
					at = append(at, x)
				}
			}
		}
	}
	return
}

func ruleNothingInventedParser(w *core.World, r *core.Report) {
	f := fn(w, r, "(*syncer.RedisOutput).parseAofCommand")
	if f == nil {
		return
	}
	sb := chanParam(f)
	vals, at := sentValues(f, sb)
	if len(vals) == 0 {
		r.Fail("parseAofCommand/send", f.Pos(), "the parser never sends on the command channel")
		return
	}
	for i, v := range vals {
		if isResultOf("syncer.buildSelectCmdExecution", -1)(v) {
			r.OK("parseAofCommand/send-select", at[i].Pos(), "")
			continue
		}
		ld, ok := core.Unwrap(v).(*ssa.UnOp)
		var lit *ssa.Alloc
		if ok && ld.Op == token.MUL {
			lit, _ = ld.X.(*ssa.Alloc)
		}
		if lit == nil {
			r.Fail("parseAofCommand/send-command", at[i].Pos(), "the parser sends a value that is neither a SELECT built by the helper nor a command literal")
			continue
		}
		okCmd, okArgs := false, false
		msg := ""
		for _, ref := range *lit.Referrers() {
			fa, ok := ref.(*ssa.FieldAddr)
			if !ok {
				continue
			}
			for _, rr := range *fa.Referrers() {
				st, ok := rr.(*ssa.Store)
				if !ok {
					continue
				}
				switch core.FieldName(fa) {
				case "Cmd":
					okCmd = isResultOf("pkg/redis/client.ParseArgs", 0)(st.Val)
					if !okCmd {
						msg += "command name is not the decoded one; "
					}
				case "Args":
					okArgs = true
					n := 0
					for _, l := range core.Leaves(st.Val) {
						switch x := l.(type) {
						case *ssa.Const, *ssa.MakeSlice:
						case *ssa.Call:
							if core.MatchName(core.ResolveCall(x).Name, "*RedisKeyFilter).FilterCmdKey") {
								n++
							} else if core.ResolveCall(x).Name != "builtin.len" {
								okArgs = false
								msg += "arguments derive from " + core.ResolveCall(x).Name + "; "
							}
						default:
							okArgs = false
							msg += "arguments derive from " + l.String() + "; "
						}
					}
					if n == 0 {
						okArgs = false
						msg += "arguments do not come from FilterCmdKey's projection; "
					}
				}
			}
		}
		r.Check(okCmd && okArgs, "parseAofCommand/send-command", at[i].Pos(), "forwarded command is not the decoded command with the filter's arguments: %s", msg)
	}
	// the SELECT helper itself
	if h := fn(w, r, "syncer.buildSelectCmdExecution"); h != nil {
		ok := false
		for _, in := range core.Instrs(h) {
			st, isSt := in.(*ssa.Store)
			if !isSt {
				continue
			}
			if fa, isFa := st.Addr.(*ssa.FieldAddr); isFa && core.FieldName(fa) == "Cmd" {
				s, isC := core.ConstString(st.Val)
				ok = isC && s == "select"
			}
		}
		// the argument is strconv.Itoa(db)
		dbOK := false
		for _, s := range core.SitesNamed(h, false, "strconv.Itoa") {
			a := s.Args()
			if len(a) == 1 && len(h.Params) > 0 && core.Unwrap(a[0]) == ssa.Value(h.Params[0]) {
				dbOK = true
			}
		}
		r.Check(ok && dbOK, "buildSelectCmdExecution", h.Pos(), "the SELECT helper must build select <itoa(db)>")
	}
}

// ---------------------------------------------------------------- R01.5

func ruleParserRemovals(w *core.World, r *core.Report) {
	f := fn(w, r, "(*syncer.RedisOutput).parseAofCommand")
	if f == nil {
		return
	}
	sb := chanParam(f)
	var dec ssa.Instruction
	for _, s := range core.SitesNamed(f, false, "pkg/redis/client.MustDecodeOpt") {
		dec = s.Instr
	}
	if dec == nil {
		r.Unresolved("parseAofCommand/decode", "decode call not found")
		return
	}
	head := core.LoopHeadOf(dec.Block())
	if head == nil {
		r.Unresolved("parseAofCommand/loop", "decode loop not found")
		return
	}
	bypassOK := func(ph *ssa.Phi) bool {
		ok, _ := flagOnlyFromFilterDb(w, ph)
		return ok
	}
	drops, sends := 0, 0
	bad := map[string]token.Pos{}
	okEnum := core.EnumPaths(head, 0, 200000, func(p *core.Path) {
		if !p.Closed {
			return
		}
		// decoded something on this path?
		decoded := false
		for _, in := range p.Instrs {
			if in == dec {
				decoded = true
			}
		}
		if !decoded {
			return
		}
		// sent on this path?
		for _, in := range p.Instrs {
			sel, ok := in.(*ssa.Select)
			if !ok {
				if sd, ok := in.(*ssa.Send); ok && (isParam(sb)(sd.Chan) || isParam(sb)(p.Resolve(sd.Chan))) {
					sends++
					return
				}
				continue
			}
			for k, st := range sel.States {
				if st.Dir == types.SendOnly && (isParam(sb)(st.Chan) || isParam(sb)(p.Resolve(st.Chan))) {
					kk := int64(k)
					if p.Holds(token.EQL, func(v ssa.Value) bool {
						e, ok := v.(*ssa.Extract)
						return ok && e.Index == 0 && e.Tuple == ssa.Value(sel)
					}, isConstInt(kk)) {
						sends++
						return
					}
				}
			}
		}
		drops++
		// a documented reason must be among the assumed outcomes
		for _, fct := range p.Conds {
			cv := core.Unwrap(p.Resolve(fct.Cond))
			if fct.Val {
				if call, ok := cv.(*ssa.Call); ok {
					n := core.ResolveCall(call).Name
					if core.MatchName(n, "*RedisKeyFilter).FilterCmd", "*RedisKeyFilter).FilterDb") {
						return
					}
					if n == "strings.EqualFold" {
						for _, a := range call.Call.Args {
							if s, ok := core.ConstString(a); ok && s == "__sentinel__:hello" {
								return
							}
						}
					}
				}
				if isResultOf("*RedisKeyFilter).FilterCmdKey", 1)(cv) {
					return
				}
				if ph, ok := cv.(*ssa.Phi); ok && ph.Block() == head && bypassOK(ph) {
					return
				}
			} else if isResultOf("(*syncer.RedisOutput).selectDB", 1)(cv) {
				return
			}
		}
		lastPos := lastDecisionPos(p)
		key := w.Pos(lastPos)
		if os.Getenv("GC_DEBUG") == "R01.5" {
			for _, fct := range p.Conds {
				fmt.Fprintf(os.Stderr, "DEBUG %s %v := %v -> %v\n", w.Pos(fct.Cond.Pos()), fct.Val, fct.Cond, p.Resolve(fct.Cond))
			}
			fmt.Fprintln(os.Stderr, "DEBUG ----")
		}
		if _, dup := bad[key]; !dup {
			bad[key] = lastPos
		}
	})
	if !okEnum {
		r.Undecided("parseAofCommand/paths", head.Instrs[0].Pos(), "too many paths through the parser loop")
		return
	}
	if len(bad) > 0 {
		keys := make([]string, 0, len(bad))
		for k := range bad {
			keys = append(keys, k)
		}
		sort.Strings(keys)
		r.Fail("parseAofCommand/removals", bad[keys[0]], "a decoded command is dropped on a loop path (last branch decision at %s) on which no documented reason holds (FilterDb/FilterCmd/FilterCmdKey reject, sentinel hello, unchanged SELECT)", strings.Join(keys, ", "))
	} else {
		r.Check(drops > 0 && sends > 0, "parseAofCommand/removals", head.Instrs[0].Pos(), "path enumeration found %d dropping and %d sending paths; expected both kinds", drops, sends)
	}
}

func ruleSenderRemovals(w *core.World, r *core.Report, c *senderCtx) {
	badPos := token.NoPos
	n := 0
	c.walkSenderPaths(r, "sendCmdsBatch/paths", func(p *core.Path) {
		if !c.receivedOnPath(p) || !p.Closed {
			return
		}
		// ok == true on this path
		appended := false
		for _, in := range p.Instrs {
			if el, ok := c.appendedElems(in); ok {
				for _, e := range el {
					if c.isItemVal(p.Resolve(e)) {
						appended = true
					}
				}
			}
		}
		n++
		if appended {
			return
		}
		if p.Holds(token.EQL, fieldOf("Cmd", c.isItem(p)), isConstStr("ping")) ||
			p.Holds(token.EQL, isTxnStatusVal, isConstInt(c.begin)) ||
			p.Holds(token.EQL, isTxnStatusVal, isConstInt(c.commit)) {
			return
		}
		if badPos == token.NoPos {
			badPos = lastDecisionPos(p)
			if badPos == token.NoPos {
				badPos = c.sel.Pos()
			}
		}
	})
	if n == 0 {
		r.Fail("sendCmdsBatch/removals", c.sel.Pos(), "no receiving path found")
		return
	}
	r.Check(badPos == token.NoPos, "sendCmdsBatch/removals", badPos, "a received item is neither queued nor a keep-alive nor a transaction bracket on some path of the sender iteration: the command is silently dropped")
}

// ---------------------------------------------------------------- R01.6

func ruleDbMapping(w *core.World, r *core.Report) {
	// who reads TargetDb / TargetDbMap
	readers := map[string]token.Pos{}
	for _, f := range w.Funcs() {
		for _, in := range core.Instrs(f) {
			var name string
			var base types.Type
			switch x := in.(type) {
			case *ssa.FieldAddr:
				// only loads count
				isLoad := false
				for _, ref := range *x.Referrers() {
					if u, ok := ref.(*ssa.UnOp); ok && u.Op == token.MUL {
						isLoad = true
					}
				}
				if !isLoad {
					continue
				}
				name, base = core.FieldName(x), x.X.Type()
			case *ssa.Field:
				name, base = core.FieldName(x), x.X.Type()
			default:
				continue
			}
			if (name == "TargetDb" || name == "TargetDbMap") && strings.HasSuffix(core.TypeName(base), "syncer.RedisOutputConfig") {
				readers[core.FuncName(f)] = in.Pos()
			}
		}
	}
	for name, pos := range readers {
		ok := name == "(*syncer.RedisOutput).selectDB"
		if !ok {
			// a helper of selectDB: called from selectDB and from nowhere else
			if g := w.Func(name); g != nil {
				ok = calledOnlyFrom(w, g, "(*syncer.RedisOutput).selectDB")
			}
		}
		r.Check(ok, "TargetDb-reader/"+name, pos, "the database mapping is consulted outside selectDB: replay paths would disagree on the target database")
	}
	if len(readers) == 0 {
		r.Fail("TargetDb-reader", token.NoPos, "no reader of the database mapping found")
	}
	ruleSelectDBBody(w, r)
	// all replay paths call selectDB
	for _, name := range []string{"(*syncer.RedisOutput).parseAofCommand", "(*syncer.RedisOutput).parseAofReplayUnits", "(*syncer.RedisOutput).rdbReplay", "(*syncer.RedisOutput).rdbReplayBisync"} {
		f := fn(w, r, name)
		if f == nil {
			continue
		}
		ss := core.SitesNamed(f, true, "(*syncer.RedisOutput).selectDB")
		r.Check(len(ss) > 0, name+"/selectDB", f.Pos(), "replay path does not take its database decision through selectDB")
	}
	// in the parser: SELECT emitted in the loop only on the changed edge, with selectDB's first result
	if f := fn(w, r, "(*syncer.RedisOutput).parseAofCommand"); f != nil {
		var dec ssa.Instruction
		for _, s := range core.SitesNamed(f, false, "pkg/redis/client.MustDecodeOpt") {
			dec = s.Instr
		}
		n := 0
		for _, s := range core.SitesNamed(f, false, "syncer.buildSelectCmdExecution") {
			at := s.Instr
			if at.Parent() != f {
				// emitted by a helper of the loop body: where the helper is called
				for _, cs := range callSitesOf(w, at.Parent()) {
					if cs.Parent() == f {
						at = cs.(ssa.CallInstruction)
					}
				}
			}
			if dec == nil || core.PathFrom(f, dec, core.Is(at), nil) == nil {
				continue // the resume SELECT before the loop
			}
			n++
			a := s.Args()
			ok := len(a) == 2 && isResultOf("(*syncer.RedisOutput).selectDB", 0)(a[0])
			changed := false
			for _, fct := range core.FactsAt(s.Instr.Block()) {
				if fct.Val && isResultOf("(*syncer.RedisOutput).selectDB", 1)(fct.Cond) {
					changed = true
				}
			}
			r.Check(ok && changed, "parseAofCommand/select-forward", s.Pos(), "a SELECT must be forwarded only when selectDB reports a change, and with the database it returned")
		}
		if n == 0 {
			r.Fail("parseAofCommand/select-forward", f.Pos(), "no SELECT is forwarded inside the decode loop: database switches of the source would be lost")
		}
	}
}

// ---------------------------------------------------------------- R01.7

var documentedNoRoute = []string{"cluster", "asking", "readonly", "readwrite", "auth", "client", "quit", "reset", "echo",
	"command", "flushall", "flushdb", "latency", "module", "psync", "replconf", "save", "shutdown", "slaveof", "slowlog", "swapdb", "sync",
	"bgsave", "bgrewriteaof", "opinfo", "lastsave", "monitor", "role", "debug", "restore-asking", "migrate", "wait", "pfselftest", "pfdebug"}

func ruleNoRouteTable(w *core.World, r *core.Report) {
	cmds, pos, ok := astCompositeStrings(w, "pkg/filter", "NoRouteCmds", false)
	if !ok {
		r.Unresolved("filter.NoRouteCmds", "table not found or not a literal")
		return
	}
	got := lowerSet(cmds)
	var missing []string
	for _, d := range documentedNoRoute {
		if !got[d] {
			missing = append(missing, d)
		}
	}
	r.Check(len(missing) == 0, "NoRouteCmds/contains-documented", pos, "administrative commands missing from the non-replayable table: %v", missing)
	// disjoint from data commands known to the key-spec tables (flushall/flushdb/swapdb/migrate/… are key-less or administrative there)
	k1, _, ok1 := astCompositeStrings(w, "pkg/redis/keyspec", "commandKeyPositions", true)
	k2, _, ok2 := astCompositeStrings(w, "pkg/redis/keyspec", "commandKeyExtractors", true)
	if !ok1 || !ok2 {
		r.Unresolved("keyspec tables", "key position tables not found")
	} else {
		var clash []string
		for _, k := range append(k1, k2...) {
			if got[strings.ToLower(k)] && strings.ToLower(k) != "migrate" && strings.ToLower(k) != "restore-asking" { // both are cluster-migration plumbing, documented as non-replayable
				clash = append(clash, k)
			}
		}
		// also: nothing outside the documented set may be blacklisted wholesale
		var extra []string
		doc := lowerSet(documentedNoRoute)
		for _, c := range cmds {
			if !doc[strings.ToLower(c)] {
				extra = append(extra, c)
			}
		}
		r.Check(len(clash) == 0 && len(extra) == 0, "NoRouteCmds/no-data-commands", pos, "data commands in the non-replayable table would be dropped silently: key-addressed=%v undocumented=%v", clash, extra)
	}
	// inserted unconditionally by NewRedisOutput
	if f := fn(w, r, "syncer.NewRedisOutput"); f != nil {
		found := false
		var sites []core.Site
		for _, g := range reachableFuncs(f) {
			if g != f && !(core.Transparent != nil && core.Transparent(g)) {
				continue
			}
			for _, s := range core.SitesNamed(g, false, "*RedisKeyFilter).InsertCmdBlackList") {
				if s.Instr.Parent() == g {
					sites = append(sites, s)
				}
			}
		}
		for _, s := range sites {
			a := s.Args()
			if len(a) < 1 {
				continue
			}
			// the table itself, or an element of a list of lists that contains it
			fromTable := func(v ssa.Value) bool {
				return core.DependsOn(v, func(x ssa.Value) bool {
					ld, ok := x.(*ssa.UnOp)
					if !ok || ld.Op != token.MUL {
						return false
					}
					g, ok := ld.X.(*ssa.Global)
					return ok && g.Name() == "NoRouteCmds"
				})
			}
			// ... whichever way the list was chosen: a list that is the table only when the operator configured
			// none does not install it
			isTable := fromTable(a[0])
			if ph, isPhi := core.Unwrap(a[0]).(*ssa.Phi); isPhi {
				for _, e := range ph.Edges {
					if !fromTable(e) {
						isTable = false
					}
				}
			}
			if !isTable {
				continue
			}
			found = true
			ci, _ := core.ConstBool(a[1])
			r.Check(unconditionalIn(w, f, s.Instr, 3) && ci, "NewRedisOutput/insert-NoRouteCmds", s.Pos(), "the non-replayable table must be inserted unconditionally and case-insensitively")
		}
		if !found {
			r.Fail("NewRedisOutput/insert-NoRouteCmds", f.Pos(), "the non-replayable command table is not installed in the output filter")
		}
	}
}

// ruleSelectDBBody checks selectDB itself on all of its paths: "no change" is
// answered only for the unset database (-1); otherwise the result is
// (target, target != current) with target = TargetDb when set, else
// TargetDbMap[origin] when present, else origin.
func ruleSelectDBBody(w *core.World, r *core.Report) {
	f := fn(w, r, "(*syncer.RedisOutput).selectDB")
	if f == nil {
		return
	}
	if len(f.Params) != 3 {
		r.Unresolved("selectDB/signature", "expected (ro, currentDB, originDB)")
		return
	}
	cur, org := f.Params[1], f.Params[2]
	// values inside a helper that selectDB calls are expressed in the helper's own parameters: the
	// path that stepped into it knows what they stand for
	var cp *core.Path
	via := func(v ssa.Value) ssa.Value {
		v = core.Unwrap(v)
		if cp != nil {
			v = core.Unwrap(cp.Resolve(v))
		}
		return v
	}
	isCur := func(v ssa.Value) bool { return via(v) == ssa.Value(cur) }
	isOrg := func(v ssa.Value) bool { return via(v) == ssa.Value(org) }
	isTargetDb := func(v ssa.Value) bool { return core.IsFieldLoad(core.Unwrap(v), "", "TargetDb") }
	isMapOK := func(v ssa.Value) bool {
		e, ok := core.Unwrap(v).(*ssa.Extract)
		if !ok || e.Index != 1 {
			return false
		}
		l, ok := e.Tuple.(*ssa.Lookup)
		return ok && core.IsFieldLoad(l.X, "", "TargetDbMap") && isOrg(l.Index)
	}
	isMapVal := func(v ssa.Value) bool {
		e, ok := core.Unwrap(v).(*ssa.Extract)
		if !ok || e.Index != 0 {
			return false
		}
		l, ok := e.Tuple.(*ssa.Lookup)
		return ok && core.IsFieldLoad(l.X, "", "TargetDbMap") && isOrg(l.Index)
	}
	n, bad := 0, ""
	var badPos token.Pos
	core.EnumPaths(f.Blocks[0], 0, 10000, func(p *core.Path) {
		ret, ok := p.End.(*ssa.Return)
		if !ok || len(ret.Results) != 2 {
			return
		}
		n++
		if bad != "" {
			return
		}
		cp = p
		fail := func(m string) { bad, badPos = m, ret.Pos() }
		r0, r1 := p.Resolve(ret.Results[0]), p.Resolve(ret.Results[1])
		var x ssa.Value
		if b, isC := core.ConstBool(r1); isC {
			if !b && p.Holds(token.EQL, isOrg, isConstInt(-1)) {
				return // no source database: nothing changes
			}
			// the flag is a constant on this path: the path itself must have compared the returned target
			// database with the current one, with the matching outcome
			want := token.EQL
			if b {
				want = token.NEQ
			}
			okCmp := false
			for _, fct := range p.Conds {
				c, isCmp := core.FactCmp(fct)
				if !isCmp || c.Op != want {
					continue
				}
				cx, cy := p.Resolve(c.X), p.Resolve(c.Y)
				if isCur(cx) {
					cx, cy = cy, cx
				}
				if isCur(cy) && core.Unwrap(cx) == core.Unwrap(r0) {
					okCmp = true
				}
			}
			if !okCmp {
				if b {
					fail("a database change is answered on a path that did not find the returned target database different from the current one")
				} else {
					fail("'no database change' is answered on a path where the source database is set: a SELECT of the source is swallowed")
				}
				return
			}
			x = r0
		} else {
			cmp, ok := core.AsCmp(r1, true)
			if !ok || cmp.Op != token.NEQ {
				fail("the changed flag must be target != current")
				return
			}
			var y ssa.Value
			x, y = p.Resolve(cmp.X), p.Resolve(cmp.Y)
			if isCur(x) {
				x, y = y, x
			}
			if !isCur(y) || core.Unwrap(x) != core.Unwrap(r0) {
				fail("the changed flag must compare the returned target database with the current one")
				return
			}
		}
		switch {
		case isTargetDb(x):
			if !p.Holds(token.NEQ, isTargetDb, isConstInt(-1)) {
				fail("the forced target database is used without testing that it is set")
			}
		case isMapVal(x):
			if !p.Holds(token.EQL, isTargetDb, isConstInt(-1)) || !pathAssumed(p, isMapOK, true) {
				fail("the mapped database must be used exactly when no forced database is set and the map has the source database")
			}
		case isOrg(x):
			if !p.Holds(token.EQL, isTargetDb, isConstInt(-1)) || !pathAssumed(p, isMapOK, false) {
				fail("the source database may be kept only when neither a forced nor a mapped database exists")
			}
		default:
			fail("the target database is not one of forced / mapped / source")
		}
	})
	if n < 4 {
		r.Fail("selectDB/body", f.Pos(), "expected the four outcomes unset / forced / mapped / unmapped, found %d return paths", n)
		return
	}
	r.Check(bad == "", "selectDB/body", badPos, "%s", bad)
}

func pathAssumed(p *core.Path, is func(ssa.Value) bool, val bool) bool {
	for _, f := range p.Conds {
		if f.Val == val && is(p.Resolve(f.Cond)) {
			return true
		}
	}
	return false
}

// ---------------------------------------------------------------- database tracking (R01.6, shared with C02 and C03)

// ruleDbTracking: every replay path keeps a local "database the target
// connection is in" and decides through selectDB(current, source db) whether a
// SELECT is needed. That only works if (a) the local starts from a value that
// cannot be mistaken for a real switch (-1 = unknown; 0 only for a connection
// the function itself has just opened), (b) it is updated from nothing but
// selectDB's first result, and (c) whenever it is updated the SELECT really
// goes out (and a failed SELECT ends the replay) before the next entry.
func ruleDbTracking(w *core.World, r *core.Report) {
	type spec struct {
		fn     string
		emit   string  // callee that makes the target switch; "" = none (units carry their database)
		initOK []int64 // admissible initial values
	}
	for _, sp := range []spec{
		{"(*syncer.RedisOutput).parseAofCommand", "syncer.buildSelectCmdExecution", []int64{-1}},
		{"(*syncer.RedisOutput).parseAofReplayUnits", "", []int64{-1}},
		{"(*syncer.RedisOutput).rdbReplay", "pkg/redis.SelectDB", []int64{-1, 0}},
		{"(*syncer.RedisOutput).rdbReplayBisync", "pkg/redis.SelectDB", []int64{-1, 0}},
	} {
		f := fn(w, r, sp.fn)
		if f == nil {
			continue
		}
		short := shortName(sp.fn)
		sites := core.SitesNamed(f, false, "(*syncer.RedisOutput).selectDB")
		if len(sites) != 1 {
			r.Undecided(short+"/db-tracking", f.Pos(), "expected exactly one selectDB call in the replay loop, found %d", len(sites))
			continue
		}
		sd := sites[0]
		isRes0 := func(v ssa.Value) bool {
			e, ok := core.Unwrap(v).(*ssa.Extract)
			return ok && e.Index == 0 && e.Tuple == sd.Value()
		}
		// (a)+(b) definitions of the tracked variable
		bad := ""
		var trackedFields []*ssa.FieldAddr
		// the value selectDB returned, or the tracked record field read back after that value was stored in it
		isTracked := func(v ssa.Value) bool {
			if isRes0(v) {
				return true
			}
			u, ok := core.Unwrap(v).(*ssa.UnOp)
			if !ok || u.Op != token.MUL {
				return false
			}
			fa, ok := u.X.(*ssa.FieldAddr)
			if !ok {
				return false
			}
			for _, tf := range trackedFields {
				if tf.Field != fa.Field || !types.Identical(recordOf(tf), recordOf(fa)) {
					continue
				}
				for _, in := range core.OwnInstrs(u.Parent()) {
					st, isSt := in.(*ssa.Store)
					if !isSt || !isRes0(st.Val) {
						continue
					}
					if fa2, isFa := st.Addr.(*ssa.FieldAddr); isFa && fa2.Field == fa.Field && types.Identical(recordOf(fa2), recordOf(fa)) && core.Dominates(st, u) {
						return true
					}
				}
			}
			return false
		}
		seen := map[ssa.Value]bool{}
		var visit func(v ssa.Value)
		visit = func(v ssa.Value) {
			v = core.Unwrap(v)
			if seen[v] {
				return
			}
			seen[v] = true
			if ph, ok := v.(*ssa.Phi); ok {
				for _, e := range ph.Edges {
					visit(e)
				}
				return
			}
			if isRes0(v) {
				return
			}
			if u, ok := v.(*ssa.UnOp); ok && u.Op == token.MUL {
				// the variable is a field of a record the loop carries from entry to entry: every store into that
				// field, anywhere, and the zero value of a record built without it
				if fa, isFa := u.X.(*ssa.FieldAddr); isFa {
					if _, isNamed := recordOf(fa).(*types.Named); isNamed {
						trackedFields = append(trackedFields, fa)
						vals, known := recordFieldDefinitions(w, fa)
						if !known {
							bad = "the record holding the tracked database is replaced as a whole"
						}
						for _, sv := range vals {
							visit(sv)
						}
						return
					}
				}
				if a := core.Cell(u.X); a != nil { // a variable shared with a closure: all of its stores
					for _, st := range core.CellStores(a) {
						visit(st.Val)
					}
					// ... and what a helper stores through the variable's address
					if refs := a.Referrers(); refs != nil {
						for _, rf := range *refs {
							if ci, isCall := rf.(*ssa.Call); isCall {
								if h := ci.Call.StaticCallee(); h != nil && core.Transparent(h) {
									for k, arg := range ci.Call.Args {
										if arg == ssa.Value(a) && k < len(h.Params) {
											for _, in := range core.OwnInstrs(h) {
												if st, isSt := in.(*ssa.Store); isSt && st.Addr == ssa.Value(h.Params[k]) {
													visit(st.Val)
												}
											}
										}
									}
								}
							}
						}
					}
					return
				}
				// the variable seen from inside a helper, through the pointer it was handed
				if par, isPar := u.X.(*ssa.Parameter); isPar && par.Parent() != f && core.Transparent(par.Parent()) {
					h := par.Parent()
					for _, in := range core.OwnInstrs(h) {
						if st, isSt := in.(*ssa.Store); isSt && st.Addr == ssa.Value(par) {
							visit(st.Val)
						}
					}
					for _, cs := range callSitesOf(w, h) {
						ci := cs.(ssa.CallInstruction)
						for k, hp := range h.Params {
							if hp == par && k < len(ci.Common().Args) {
								if a, isA := ci.Common().Args[k].(*ssa.Alloc); isA {
									for _, st := range core.CellStores(a) {
										visit(st.Val)
									}
								} else {
									visit(ci.Common().Args[k])
								}
							}
						}
					}
					return
				}
			}
			// a result of a helper of the package: whatever the helper returns there
			if e, ok := v.(*ssa.Extract); ok {
				if c, isCall := e.Tuple.(*ssa.Call); isCall {
					if h := c.Call.StaticCallee(); h != nil && len(h.Blocks) > 0 && core.Transparent(h) {
						for _, in := range core.OwnInstrs(h) {
							if ret, isRet := in.(*ssa.Return); isRet && e.Index < len(ret.Results) {
								visit(ret.Results[e.Index])
							}
						}
						return
					}
				}
			}
			if c, ok := v.(*ssa.Call); ok {
				if h := c.Call.StaticCallee(); h != nil && len(h.Blocks) > 0 && core.Transparent(h) && h.Signature.Results().Len() == 1 {
					for _, in := range core.OwnInstrs(h) {
						if ret, isRet := in.(*ssa.Return); isRet {
							visit(ret.Results[0])
						}
					}
					return
				}
			}
			// a value parameter of a helper: what the callers hand in
			if par, ok := v.(*ssa.Parameter); ok && par.Parent() != f && core.Transparent(par.Parent()) {
				h := par.Parent()
				for _, cs := range callSitesOf(w, h) {
					ci := cs.(ssa.CallInstruction)
					args := ci.Common().Args
					for k, hp := range h.Params {
						if hp == par && k < len(args) {
							visit(args[k])
						}
					}
				}
				return
			}
			if c, ok := core.ConstInt(v); ok {
				for _, a := range sp.initOK {
					if a == c {
						return
					}
				}
				bad = fmt.Sprintf("the tracked database starts as %d: the first SELECT of the source to that database would be judged redundant although the target connection may be elsewhere", c)
				return
			}
			bad = "the tracked database is assigned from something other than selectDB's result: " + v.String()
		}
		visit(sd.Args()[0])
		r.Check(bad == "", short+"/db-tracking-definitions", sd.Pos(), "%s", bad)

		if sp.emit == "" {
			continue
		}
		// (c) on the changed edge the switch is emitted before the next entry
		var tb *ssa.BasicBlock
		for _, b := range f.Blocks {
			if iff, ok := b.Instrs[len(b.Instrs)-1].(*ssa.If); ok {
				if e, ok := core.Unwrap(iff.Cond).(*ssa.Extract); ok && e.Index == 1 && e.Tuple == sd.Value() {
					tb = b.Succs[0]
				}
			}
		}
		// the selectDB call may live in a helper of the loop body: there the "next entry" is the helper's return
		home := sd.Instr.Parent()
		if tb == nil && home != f {
			for _, b := range home.Blocks {
				if iff, ok := b.Instrs[len(b.Instrs)-1].(*ssa.If); ok {
					if e, ok := core.Unwrap(iff.Cond).(*ssa.Extract); ok && e.Index == 1 && e.Tuple == sd.Value() {
						tb = b.Succs[0]
					}
				}
			}
		}
		head := core.LoopHeadOf(sd.Instr.Block())
		if head == nil && home != f && tb != nil {
			okFail := true
			var emits []core.Site
			isEmit := func(in ssa.Instruction) bool {
				ci, ok := in.(ssa.CallInstruction)
				if !ok {
					return false
				}
				s := core.ResolveCall(ci)
				if !core.MatchName(s.Name, sp.emit) {
					return false
				}
				for _, a := range s.Args() {
					if core.DependsOn(a, isTracked) {
						emits = append(emits, s)
						return true
					}
				}
				return false
			}
			// a return of the helper that does not report a failure, reached without the switch
			esc := core.PathFromBlock(tb, func(in ssa.Instruction) bool {
				ret, isRet := in.(*ssa.Return)
				if !isRet {
					return false
				}
				for _, rv := range ret.Results {
					if types.Identical(rv.Type(), types.Universe.Lookup("error").Type()) && !core.IsNilConst(rv) {
						return false
					}
				}
				return true
			}, isEmit)
			if sp.emit == "pkg/redis.SelectDB" {
				for _, e := range emits {
					if !failureReturned(home, e) {
						okFail = false
					}
				}
				// ... through every helper between the switch and the loop
				for cur, depth := home, 0; cur != f && depth < 4; depth++ {
					sites := callSitesOf(w, cur)
					if len(sites) != 1 {
						okFail = okFail && len(sites) > 0 && cur == home
						for _, cs := range sites {
							if cs.Parent() == f && !failureReturned(f, core.ResolveCall(cs.(ssa.CallInstruction))) {
								okFail = false
							}
						}
						break
					}
					cs := sites[0]
					if !failureReturned(cs.Parent(), core.ResolveCall(cs.(ssa.CallInstruction))) {
						okFail = false
					}
					cur = cs.Parent()
				}
			}
			r.Check(esc == nil && len(emits) > 0 && okFail, short+"/db-switch-emitted", sd.Pos(), "when selectDB reports a change the switch must reach the target (with selectDB's database) before the next entry is handled, and a failed switch must end the replay; otherwise the tracked database and the connection disagree and later keys land in the wrong database (escape=%v, emissions=%d, failure ends replay=%v)", esc != nil, len(emits), okFail)
			continue
		}
		if tb == nil || head == nil {
			r.Undecided(short+"/db-switch-emitted", sd.Pos(), "the branch on selectDB's 'changed' result or the replay loop was not found")
			continue
		}
		var emits []core.Site
		isEmit := func(in ssa.Instruction) bool {
			ci, ok := in.(ssa.CallInstruction)
			if !ok {
				return false
			}
			s := core.ResolveCall(ci)
			if !core.MatchName(s.Name, sp.emit) {
				return false
			}
			for _, a := range s.Args() {
				if core.DependsOn(a, isRes0) {
					emits = append(emits, s)
					return true
				}
			}
			return false
		}
		atHead := func(in ssa.Instruction) bool { return in == head.Instrs[0] }
		esc := core.PathFromBlock(tb, atHead, isEmit)
		okFail := true
		if sp.emit == "pkg/redis.SelectDB" {
			for _, e := range emits {
				if !failureReturned(f, e) {
					okFail = false
				}
			}
		}
		r.Check(esc == nil && len(emits) > 0 && okFail, short+"/db-switch-emitted", sd.Pos(), "when selectDB reports a change the switch must reach the target (with selectDB's database) before the next entry is handled, and a failed switch must end the replay; otherwise the tracked database and the connection disagree and later keys land in the wrong database (escape=%v, emissions=%d, failure ends replay=%v)", esc != nil, len(emits), okFail)
	}
}

// ---------------------------------------------------------------- R01.9 the configured target database reaches the replay paths

// ruleTargetDbConfigured: selectDB takes "every source database goes to this
// one" from ReplayConfig.TargetDb (R01.6). The normalisation of the
// configuration must hand over the value the operator wrote whenever one was
// written — 0 included — and -1 ("keep the source's database") only when none
// was written (or resume-from-breakpoint, which forbids a forced database, is
// being defaulted). Decided on the value the field holds when fix returns.
func ruleTargetDbConfigured(w *core.World, r *core.Report) {
	f := fn(w, r, "(*config.ReplayConfig).fix")
	if f == nil {
		return
	}
	isCfgPtr := func(v ssa.Value) bool { return fieldNameOfLoad(core.Unwrap(v)) == "TargetDbCfg" }
	isResumePtr := func(v ssa.Value) bool { return fieldNameOfLoad(core.Unwrap(v)) == "ResumeFromBreakPoint" }
	bad := ""
	var pos token.Pos = f.Pos()
	n, nCfg := 0, 0
	seen := map[string]bool{}
	// only the part of the function from which a store to TargetDb can still be reached matters
	isTargetDbStore := func(in ssa.Instruction) bool {
		st, ok := in.(*ssa.Store)
		if !ok {
			return false
		}
		fa, isFa := st.Addr.(*ssa.FieldAddr)
		return isFa && core.FieldName(fa) == "TargetDb" && strings.HasSuffix(core.TypeName(fa.X.Type()), "ReplayConfig")
	}
	live := liveBlocks(f, isTargetDbStore)
	okEnum := core.EnumPathsStop(f.Blocks[0], 0, 200000, 1, func(b *ssa.BasicBlock) bool { return !live[b] }, func(p *core.Path) {
		if bad != "" {
			return
		}
		// the last value stored into TargetDb on the path
		var last ssa.Value
		for _, in := range p.Instrs {
			if st, ok := in.(*ssa.Store); ok {
				if fa, isFa := st.Addr.(*ssa.FieldAddr); isFa && core.FieldName(fa) == "TargetDb" && strings.HasSuffix(core.TypeName(fa.X.Type()), "ReplayConfig") {
					last = p.Resolve(st.Val)
				}
			}
		}
		if last == nil {
			return
		}
		cfgSet := p.Holds(token.NEQ, isCfgPtr, core.IsNilConst)
		cfgNil := p.Holds(token.EQL, isCfgPtr, core.IsNilConst)
		resumeDefaulted := p.Holds(token.EQL, isResumePtr, core.IsNilConst)
		key := fmt.Sprintf("%v/%v/%v/%s", cfgSet, cfgNil, resumeDefaulted, last.String())
		if seen[key] {
			return
		}
		seen[key] = true
		n++
		isConfigured := false
		if ld, ok := core.Unwrap(last).(*ssa.UnOp); ok && ld.Op == token.MUL && isCfgPtr(ld.X) {
			isConfigured = true
		}
		switch {
		case resumeDefaulted:
			// resume-from-breakpoint is being switched on by default: a forced database is not allowed with it
		case cfgSet:
			nCfg++
			if !isConfigured {
				bad, pos = "a target database was configured, yet the replay configuration ends up with "+last.String()+" instead of the configured value: selectDB then keeps the source's database (for instance targetDb: 0 treated as 'not set')", p.End.Pos()
			}
		case cfgNil:
			if k, ok := core.ConstInt(last); !ok || k != -1 {
				bad, pos = "no target database was configured, yet the replay configuration does not end up with -1 ('keep the source's database')", p.End.Pos()
			}
		}
	})
	if !okEnum {
		r.Undecided("ReplayConfig.fix/target-db", f.Pos(), "too many paths")
		return
	}
	r.Check(bad == "" && n > 0 && nCfg > 0, "ReplayConfig.fix/target-db", pos, "%s (distinct outcomes=%d, with a configured database=%d)", bad, n, nCfg)
}

// ---------------------------------------------------------------- R01.10 a SELECT of the source is never forwarded as an ordinary command

// ruleSelectNeverForwardedRaw: the parser turns a SELECT of the source into a
// database decision (selectDB: mapping, de-duplication, the tracked database).
// A SELECT that misses that branch is forwarded verbatim: the mapping is not
// applied and the tracked database goes stale, so a later switch back is judged
// redundant and writes land in the wrong database. On every path of one
// iteration on which the command was recognised as a SELECT (its number went
// through the database filter) and which reaches the generic forwarding, the
// path's own tests must imply that the number is negative (the one case the
// code lets fall through). `db > 0` instead of `db >= 0` leaves database 0
// — the most common one — outside.
func ruleSelectNeverForwardedRaw(w *core.World, r *core.Report) {
	f := fn(w, r, "(*syncer.RedisOutput).parseAofCommand")
	if f == nil {
		return
	}
	var head *ssa.BasicBlock
	for _, s := range core.SitesNamed(f, false, "pkg/redis/client.MustDecodeOpt") {
		if s.Instr.Parent() == f {
			head = core.LoopHeadOf(s.Instr.Block())
		}
	}
	if head == nil {
		r.Undecided("parseAofCommand/select-not-forwarded-raw", f.Pos(), "the decode loop was not found")
		return
	}
	isGenericCmd := func(in ssa.Instruction) bool {
		st, ok := in.(*ssa.Store)
		if !ok {
			return false
		}
		fa, ok := st.Addr.(*ssa.FieldAddr)
		return ok && core.FieldName(fa) == "Cmd" && strings.HasSuffix(core.TypeName(fa.X.Type()), "syncer.cmdExecution")
	}
	bad := ""
	var pos token.Pos = f.Pos()
	n, selects := 0, 0
	okEnum := core.EnumPathsN(head, 0, 400000, 1, func(p *core.Path) {
		if bad != "" {
			return
		}
		var db ssa.Value
		for _, s := range pathSites(p) {
			if strings.HasSuffix(s.Name, "RedisKeyFilter).FilterDb") {
				if a := s.Args(); len(a) >= 1 {
					db = p.Resolve(a[0])
				}
			}
		}
		if db == nil {
			return
		}
		selects++
		var fwd ssa.Instruction
		for _, in := range p.Instrs {
			if isGenericCmd(in) {
				fwd = in
			}
		}
		if fwd == nil {
			return
		}
		n++
		zero := ssa.Value(ssa.NewConst(constant.MakeInt64(0), db.Type()))
		if !p.Entails(db, token.LSS, zero) {
			bad, pos = "a SELECT of the source reaches the generic forwarding on a path whose tests do not imply a negative database number: it is sent verbatim, without the database mapping, and the tracked database is not updated (for instance database 0 under `db > 0`)", fwd.Pos()
		}
	})
	if !okEnum {
		r.Undecided("parseAofCommand/select-not-forwarded-raw", f.Pos(), "too many paths")
		return
	}
	r.Check(bad == "" && selects > 0, "parseAofCommand/select-not-forwarded-raw", pos, "%s (select paths=%d, of them reaching the generic forwarding=%d)", bad, selects, n)
}

// flagOnlyFromFilterDb: the (loop-carried) bypass flag may only come from FilterDb or be the constant false; it may
// travel through the fields of a private record and through the parameters of helpers. calls counts the FilterDb
// results among its sources.
func flagOnlyFromFilterDb(w *core.World, ph ssa.Value) (bool, int) {
	calls := 0
	ok := true
	seen := map[ssa.Value]bool{}
	var rec func(v ssa.Value)
	rec = func(v ssa.Value) {
		if seen[v] {
			return
		}
		seen[v] = true
		switch x := v.(type) {
		case *ssa.Phi:
			for _, e := range x.Edges {
				rec(e)
			}
		case *ssa.Const:
			if b, isB := core.ConstBool(x); !isB || b {
				ok = false
			}
		case *ssa.Call:
			if !core.MatchName(core.ResolveCall(x).Name, "*RedisKeyFilter).FilterDb") {
				ok = false
			} else {
				calls++
			}
		case *ssa.UnOp:
			// the flag travels in a record the filtering helper returns
			fa, isFa := x.X.(*ssa.FieldAddr)
			a, isA := (ssa.Value)(nil), false
			if isFa && x.Op == token.MUL {
				a, isA = fa.X.(*ssa.Alloc)
			}
			if !isA {
				ok = false
				return
			}
			vals, known := core.RecordFieldSources(a.(*ssa.Alloc), fa.Field)
			if !known {
				ok = false
			}
			for _, sv := range vals {
				rec(sv)
			}
		case *ssa.Parameter:
			sites := callSitesOf(w, x.Parent())
			if len(sites) == 0 {
				ok = false
			}
			for _, s := range sites {
				idx := -1
				for i, prm := range x.Parent().Params {
					if prm == x {
						idx = i
					}
				}
				ci, isCall := s.(ssa.CallInstruction)
				if !isCall || idx < 0 || idx >= len(ci.Common().Args) || ci.Common().IsInvoke() {
					ok = false
					continue
				}
				rec(ci.Common().Args[idx])
			}
		default:
			ok = false
		}
	}
	rec(ph)
	return ok, calls
}

// recordOf: the (named) struct type a field address points into.
func recordOf(fa *ssa.FieldAddr) types.Type {
	if pt, ok := fa.X.Type().Underlying().(*types.Pointer); ok {
		return pt.Elem()
	}
	return fa.X.Type()
}

// recordFieldDefinitions: every value stored, anywhere in the program, into the field fa names (same record
// type, same field), plus the zero value when a record of that type is built without the field. known is false
// when a record of that type is overwritten as a whole somewhere.
func recordFieldDefinitions(w *core.World, fa *ssa.FieldAddr) (vals []ssa.Value, known bool) {
	rt := recordOf(fa)
	known = true
	for _, g := range w.Funcs() {
		for _, in := range core.OwnInstrs(g) {
			switch x := in.(type) {
			case *ssa.Store:
				if fa2, ok := x.Addr.(*ssa.FieldAddr); ok {
					if fa2.Field == fa.Field && types.Identical(recordOf(fa2), rt) {
						vals = append(vals, x.Val)
					}
					continue
				}
				if pt, ok := x.Addr.Type().Underlying().(*types.Pointer); ok && types.Identical(pt.Elem(), rt) {
					known = false
				}
			case *ssa.Alloc:
				pt, ok := x.Type().Underlying().(*types.Pointer)
				if !ok || !types.Identical(pt.Elem(), rt) {
					continue
				}
				set := false
				if refs := x.Referrers(); refs != nil {
					for _, rf := range *refs {
						if fa2, ok := rf.(*ssa.FieldAddr); ok && fa2.Field == fa.Field {
							for _, rr := range *fa2.Referrers() {
								if st, isSt := rr.(*ssa.Store); isSt && st.Addr == ssa.Value(fa2) {
									set = true
								}
							}
						}
					}
				}
				if !set {
					if st, ok := rt.Underlying().(*types.Struct); ok && fa.Field < st.NumFields() {
						if b, isB := st.Field(fa.Field).Type().Underlying().(*types.Basic); isB && b.Info()&types.IsInteger != 0 {
							vals = append(vals, ssa.NewConst(constant.MakeInt64(0), st.Field(fa.Field).Type()))
							continue
						}
					}
					known = false
				}
			}
		}
	}
	return vals, known
}
