package rules

import (
	"go/token"
	"go/types"
	"strings"

	"gunyucheck/core"

	"golang.org/x/tools/go/ssa"
)

// Rules written for the seeded breaking changes of the seventh round that the check of their own property did
// not report: C02-13 (R02.8), C07-13 (R07.9), C07-14 (R06.13 shared into C07), C04-13 (R04.12).

// ---------------------------------------------------------------- R02.8 no resume position is stored inside an open source transaction

// noFlushPendingAtHead establishes, for transactional mode, the loop invariant "no flush request is pending when
// an iteration of the sender starts" (constant false at loop entry, re-established by every path of one
// iteration that starts with it), as R09.1 does. nf is nil when the flag was not found.
func (c *senderCtx) noFlushPendingAtHead(txn *ssa.Parameter) (nf *ssa.Phi, invariant bool) {
	nf = c.needFlushPhi()
	if nf == nil {
		return nil, false
	}
	invariant = true
	for i, pr := range c.head.Preds {
		if !inLoop(pr, c.head) {
			if b, ok := core.ConstBool(nf.Edges[i]); !ok || b {
				invariant = false
			}
		}
	}
	if !invariant {
		return nf, false
	}
	okEnum := core.EnumPathsSeed(c.head, 0, 200000, 1, func(p *core.Path) {
		p.Assume(txn, true)
		p.Assume(nf, false)
	}, func(p *core.Path) {
		if !p.Closed {
			return
		}
		nv := p.NextIter(nf)
		if nv == nil {
			invariant = false
			return
		}
		if nv == ssa.Value(nf) {
			return
		}
		if b, ok := p.Eval(nv); !ok || b {
			invariant = false
		}
	})
	return nf, invariant && okEnum
}

// ruleNoPositionInsideOpenTxn: in transactional mode the source's MULTI is consumed but never queued; it lives on
// in the in-transaction flag only, while the running offset already is the MULTI's end (and later the end of the
// transaction's commands taken so far). A flush that stores a position while that flag may be set therefore stores
// a position that covers a transaction bracket (and commands) the target has not received as a transaction: a
// restart resumes inside the source transaction. The one flush allowed with the flag set is the one the
// transaction state machine asks for (EXEC: the whole transaction is queued). Same path set as R09.1; what is
// demanded here is about the stored position, so a flush that is known not to store one is no instance.
func ruleNoPositionInsideOpenTxn(w *core.World, r *core.Report, c *senderCtx) {
	ph := c.inTxnPhi()
	if ph == nil {
		r.Unresolved("sendCmdsBatch/inTransaction", "loop-carried in-transaction flag not found")
		return
	}
	txn := c.txnModeParam()
	if txn == nil {
		r.Unresolved("sendCmdsBatch/transactionMode", "transaction-mode parameter not found")
		return
	}
	nf, invariant := c.noFlushPendingAtHead(txn)
	type verdict struct {
		pos       token.Pos
		bad       string
		undecided bool
		seen      int
	}
	res := map[string]*verdict{}
	okEnum := core.EnumPathsSeed(c.head, 0, 200000, 1, func(p *core.Path) {
		p.Assume(txn, true)
		if invariant {
			p.Assume(nf, false)
		}
	}, func(p *core.Path) {
		c.sendCalls(p, func(s core.Site, _ bool, idx int) {
			cons := "sendCmdsBatch/" + c.flushRole(s.Instr) + "/no-position-inside-open-txn"
			v := res[cons]
			if v == nil {
				v = &verdict{pos: s.Pos()}
				res[cons] = v
			}
			v.seen++
			if b, ok := p.Eval(ph); ok && !b {
				return // no source transaction is open
			}
			for _, f := range p.Conds {
				if f.Val && isTxnFlushVal(p.Resolve(f.Cond)) {
					return // the state machine asked for this flush
				}
			}
			if v.bad != "" {
				return
			}
			fa, okArgs := c.flushArgsAt(s)
			if !okArgs {
				v.bad, v.undecided = "the sender's call does not hand over (wrap, update checkpoint, offset) in a recognised form", true
				return
			}
			if upd, known := p.Eval(fa[1]); known && !upd {
				return // nothing is stored by this flush
			}
			v.bad = "in transactional mode a flush that stores a resume position is reachable while a source transaction may be open (the in-transaction flag is not known false) and the transaction state machine did not ask for it: the source's MULTI is consumed but only the flag stands for it, the running offset already lies behind it, so the stored position covers a transaction bracket whose transaction the target has not received - a restart resumes inside the source transaction (and the loop tail clears the flag, the rest of the transaction then goes out piecemeal). Only EXEC may flush an open source transaction; a keep-alive or ticker has to wait, an empty queue does not make it safe"
			if !invariant {
				v.bad += "; note: the invariant 'no flush request pending at iteration start' could not be established"
			}
		})
	})
	if !okEnum {
		r.Undecided("sendCmdsBatch/paths", c.head.Instrs[0].Pos(), "too many paths through one sender iteration")
	}
	for cons, v := range res {
		switch {
		case v.bad != "" && v.undecided:
			r.Undecided(cons, v.pos, "%s", v.bad)
		case v.bad != "":
			r.Fail(cons, v.pos, "%s", v.bad)
		default:
			r.OK(cons, v.pos, "%d path instance(s)", v.seen)
		}
	}
}


var _ = strings.HasSuffix
var _ types.Type
