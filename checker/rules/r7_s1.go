package rules

import (
	"go/token"
	"go/types"
	"strings"

	"gunyucheck/core"

	"golang.org/x/tools/go/ssa"
)

// Rules written for the seeded breaking changes of the seventh round that the check of their own property did
// not report: C02-13 (R02.8), C07-13 (R07.9), C07-14 (R06.13 shared into C07), C04-13 (R04.12).

// ---------------------------------------------------------------- R02.8 no resume position is stored inside an open source transaction

// noFlushPendingAtHead establishes, for transactional mode, the loop invariant "no flush request is pending when
// an iteration of the sender starts" (constant false at loop entry, re-established by every path of one
// iteration that starts with it), as R09.1 does. nf is nil when the flag was not found.
func (c *senderCtx) noFlushPendingAtHead(txn *ssa.Parameter) (nf *ssa.Phi, invariant bool) {
	nf = c.needFlushPhi()
	if nf == nil {
		return nil, false
	}
	invariant = true
	for i, pr := range c.head.Preds {
		if !inLoop(pr, c.head) {
			if b, ok := core.ConstBool(nf.Edges[i]); !ok || b {
				invariant = false
			}
		}
	}
	if !invariant {
		return nf, false
	}
	okEnum := core.EnumPathsSeed(c.head, 0, 200000, 1, func(p *core.Path) {
		p.Assume(txn, true)
		p.Assume(nf, false)
	}, func(p *core.Path) {
		if !p.Closed {
			return
		}
		nv := p.NextIter(nf)
		if nv == nil {
			invariant = false
			return
		}
		if nv == ssa.Value(nf) {
			return
		}
		if b, ok := p.Eval(nv); !ok || b {
			invariant = false
		}
	})
	return nf, invariant && okEnum
}

// ruleNoPositionInsideOpenTxn: in transactional mode the source's MULTI is consumed but never queued; it lives on
// in the in-transaction flag only, while the running offset already is the MULTI's end (and later the end of the
// transaction's commands taken so far). A flush that stores a position while that flag may be set therefore stores
// a position that covers a transaction bracket (and commands) the target has not received as a transaction: a
// restart resumes inside the source transaction. The one flush allowed with the flag set is the one the
// transaction state machine asks for (EXEC: the whole transaction is queued). Same path set as R09.1; what is
// demanded here is about the stored position, so a flush that is known not to store one is no instance.
func ruleNoPositionInsideOpenTxn(w *core.World, r *core.Report, c *senderCtx) {
	ph := c.inTxnPhi()
	if ph == nil {
		r.Unresolved("sendCmdsBatch/inTransaction", "loop-carried in-transaction flag not found")
		return
	}
	txn := c.txnModeParam()
	if txn == nil {
		r.Unresolved("sendCmdsBatch/transactionMode", "transaction-mode parameter not found")
		return
	}
	nf, invariant := c.noFlushPendingAtHead(txn)
	type verdict struct {
		pos       token.Pos
		bad       string
		undecided bool
		seen      int
	}
	res := map[string]*verdict{}
	okEnum := core.EnumPathsSeed(c.head, 0, 200000, 1, func(p *core.Path) {
		p.Assume(txn, true)
		if invariant {
			p.Assume(nf, false)
		}
	}, func(p *core.Path) {
		c.sendCalls(p, func(s core.Site, _ bool, idx int) {
			cons := "sendCmdsBatch/" + c.flushRole(s.Instr) + "/no-position-inside-open-txn"
			v := res[cons]
			if v == nil {
				v = &verdict{pos: s.Pos()}
				res[cons] = v
			}
			v.seen++
			if b, ok := p.Eval(ph); ok && !b {
				return // no source transaction is open
			}
			for _, f := range p.Conds {
				if f.Val && isTxnFlushVal(p.Resolve(f.Cond)) {
					return // the state machine asked for this flush
				}
			}
			if v.bad != "" {
				return
			}
			fa, okArgs := c.flushArgsAt(s)
			if !okArgs {
				v.bad, v.undecided = "the sender's call does not hand over (wrap, update checkpoint, offset) in a recognised form", true
				return
			}
			if upd, known := p.Eval(fa[1]); known && !upd {
				return // nothing is stored by this flush
			}
			v.bad = "in transactional mode a flush that stores a resume position is reachable while a source transaction may be open (the in-transaction flag is not known false) and the transaction state machine did not ask for it: the source's MULTI is consumed but only the flag stands for it, the running offset already lies behind it, so the stored position covers a transaction bracket whose transaction the target has not received - a restart resumes inside the source transaction (and the loop tail clears the flag, the rest of the transaction then goes out piecemeal). Only EXEC may flush an open source transaction; a keep-alive or ticker has to wait, an empty queue does not make it safe"
			if !invariant {
				v.bad += "; note: the invariant 'no flush request pending at iteration start' could not be established"
			}
		})
	})
	if !okEnum {
		r.Undecided("sendCmdsBatch/paths", c.head.Instrs[0].Pos(), "too many paths through one sender iteration")
	}
	for cons, v := range res {
		switch {
		case v.bad != "" && v.undecided:
			r.Undecided(cons, v.pos, "%s", v.bad)
		case v.bad != "":
			r.Fail(cons, v.pos, "%s", v.bad)
		default:
			r.OK(cons, v.pos, "%d path instance(s)", v.seen)
		}
	}
}

// ---------------------------------------------------------------- R07.9 the database a checkpoint is accounted to is the database of this batch

// ruleCheckpointDbFromBatch: the run id (and version) of a checkpoint record is written once per database; a
// per-database set says which databases hold it already, and only the offset is written into those (R07.7). The
// HSETs are executed in whatever database the connection is in when they arrive, and the one thing the batch sender
// knows about that is the batch itself: the last stream command queued before them leaves the connection in its
// database. So the key of every look-up in (and every addition to) that set must be the database of the last
// element of the command queue, read in the same call. Anything remembered from an earlier batch is not that: the
// keep-alive item carries no database (its field reads 0), so after a keep-alive a remembered "current database"
// is 0 whatever database the connection is in, the set answers for the wrong database, and the offset goes without
// its run id into a database that never received it - GetCheckpoint then reads the newest position as one of an
// unknown run (seed C07-13).
func ruleCheckpointDbFromBatch(w *core.World, r *core.Report, c *senderCtx) {
	const cons = "sendCmdsBatch/checkpoint-database-from-batch"
	isKeyCall := func(v ssa.Value, method string) bool {
		call, ok := core.Unwrap(v).(*ssa.Call)
		return ok && strings.HasSuffix(core.ResolveCall(call).Name, "CheckpointInfo)."+method)
	}
	putsOffset := func(s core.Site) bool {
		if s.Method != "Put" {
			return false
		}
		if name, ok := core.CmdName(s); !ok || name != "hset" {
			return false
		}
		args, ok := core.CmdArgs(s)
		if !ok {
			return false
		}
		for _, a := range args {
			if isKeyCall(a, "OffsetKey") {
				return true
			}
		}
		return false
	}
	intKeyedSet := func(t types.Type) bool {
		m, ok := t.Underlying().(*types.Map)
		if !ok {
			return false
		}
		b, ok := m.Key().Underlying().(*types.Basic)
		return ok && b.Info()&types.IsInteger != 0
	}
	// the per-database sets: the maps a comma-ok look-up of the batch sender consults
	sets := map[*ssa.Alloc]bool{}
	setOf := func(m ssa.Value) *ssa.Alloc {
		ld, ok := core.Unwrap(m).(*ssa.UnOp)
		if !ok || ld.Op != token.MUL {
			return nil
		}
		return core.Cell(ld.X)
	}
	bad, undecided := "", ""
	var badPos, undPos token.Pos
	n := 0
	okEnum := core.EnumPaths(c.once.Blocks[0], 0, 200000, func(p *core.Path) {
		if bad != "" {
			return
		}
		stores := false
		for _, s := range pathSites(p) {
			if putsOffset(s) {
				stores = true
			}
		}
		if !stores {
			return
		}
		for _, in := range p.Instrs {
			if lk, ok := in.(*ssa.Lookup); ok && lk.CommaOk && intKeyedSet(lk.X.Type()) {
				if a := setOf(lk.X); a != nil {
					sets[a] = true
				}
			}
		}
		for _, in := range p.Instrs {
			var key ssa.Value
			what := ""
			switch x := in.(type) {
			case *ssa.Lookup:
				if x.CommaOk && intKeyedSet(x.X.Type()) && sets[setOf(x.X)] {
					key, what = x.Index, "asked"
				}
			case *ssa.MapUpdate:
				if intKeyedSet(x.Map.Type()) && sets[setOf(x.Map)] {
					key, what = x.Key, "told"
				}
			}
			if key == nil {
				continue
			}
			n++
			switch verdict, detail := c.queueTailDb(p, key, in); verdict {
			case "tail":
			case "undecided":
				if undecided == "" {
					undecided, undPos = "the set of databases that hold the run id is "+what+" about a database the rule cannot follow to the last element of the command queue ("+detail+"); accepted: the Db field of queue[len(queue)-1], read directly or through a local copy of that element", in.Pos()
				}
			default:
				bad, badPos = "the set of databases that already hold this run's id is "+what+" about a database that is not the one of the last command queued in this batch ("+detail+"). The checkpoint fields are executed in the database the connection is in, and the batch sender only knows that database from the commands it queues before them; a database remembered from an earlier batch is not it (the keep-alive item carries none, its database reads 0 whatever the connection is in). The set then answers for the wrong database, the offset is written without the run id into a database that never received it, and a restart reads the newest position as 'offset N of an unknown run': full resynchronisation although a good position was stored. With nothing queued the run id must go with the offset", in.Pos()
			}
		}
	})
	if !okEnum {
		r.Undecided(cons, c.once.Pos(), "too many paths through the batch sender")
		return
	}
	switch {
	case bad != "":
		r.Fail(cons, badPos, "%s", bad)
	case undecided != "":
		r.Undecided(cons, undPos, "%s", undecided)
	case n == 0:
		r.Fail(cons, c.once.Pos(), "no path of the batch sender that stores an offset consults a per-database set (R07.7 demands the run id with every offset in that case; the rule has nothing to check)")
	default:
		r.OK(cons, c.once.Pos(), "%d look-up(s)/addition(s) on offset-storing paths", n)
	}
}

// queueTailDb classifies the value a per-database set is keyed with on a path: "tail" when it is the database
// field of the last element of the command queue (read from the queue in this call: directly, or through a local
// copy of the element), "undecided" when it is the database field of a queue element whose index the rule cannot
// read as len(queue)-1, "other" otherwise (detail says what it is).
func (c *senderCtx) queueTailDb(p *core.Path, key ssa.Value, at ssa.Instruction) (verdict, detail string) {
	k := core.Unwrap(p.Resolve(key))
	isDbField := func(v ssa.Value) bool {
		switch x := v.(type) {
		case *ssa.FieldAddr:
			return core.FieldName(x) == "Db" && strings.HasSuffix(core.TypeName(x.X.Type()), "syncer.cmdExecution")
		case *ssa.Field:
			return core.FieldName(x) == "Db" && strings.HasSuffix(core.TypeName(x.X.Type()), "syncer.cmdExecution")
		}
		return false
	}
	isQueueLoad := func(v ssa.Value) bool {
		ld, ok := core.Unwrap(p.Resolve(v)).(*ssa.UnOp)
		return ok && ld.Op == token.MUL && core.Cell(ld.X) == c.queue
	}
	isQueueLen := func(v ssa.Value) bool {
		call, ok := core.Unwrap(p.Resolve(v)).(*ssa.Call)
		if !ok {
			return false
		}
		b, ok := call.Call.Value.(*ssa.Builtin)
		return ok && b.Name() == "len" && len(call.Call.Args) == 1 && isQueueLoad(call.Call.Args[0])
	}
	// elem: the struct value / address denotes queue[idx]
	var elemIndex func(v ssa.Value, depth int) (idx ssa.Value, ok bool)
	elemIndex = func(v ssa.Value, depth int) (ssa.Value, bool) {
		if depth > 4 {
			return nil, false
		}
		switch x := v.(type) {
		case *ssa.IndexAddr:
			if isQueueLoad(x.X) {
				return x.Index, true
			}
		case *ssa.UnOp: // a loaded element
			if x.Op == token.MUL {
				if r := p.Resolve(x); r != ssa.Value(x) {
					return elemIndex(core.Unwrap(r), depth+1)
				}
				return elemIndex(x.X, depth+1)
			}
		case *ssa.Alloc: // a local copy: the whole-element store the path made last before the use
			var last ssa.Value
			for _, in := range p.Instrs {
				if in == at {
					break
				}
				if st, isSt := in.(*ssa.Store); isSt && st.Addr == ssa.Value(x) {
					last = st.Val
				}
			}
			if last != nil {
				return elemIndex(core.Unwrap(p.Resolve(last)), depth+1)
			}
		}
		return nil, false
	}
	var base ssa.Value
	switch x := k.(type) {
	case *ssa.UnOp:
		if fa, ok := x.X.(*ssa.FieldAddr); ok && x.Op == token.MUL && isDbField(fa) {
			base = fa.X
		}
	case *ssa.Field:
		if isDbField(x) {
			base = core.Unwrap(p.Resolve(x.X))
		}
	}
	if base != nil {
		if idx, ok := elemIndex(base, 0); ok {
			if sub, isSub := core.Unwrap(p.Resolve(idx)).(*ssa.BinOp); isSub && sub.Op == token.SUB && isConstInt(1)(sub.Y) && isQueueLen(sub.X) {
				return "tail", ""
			}
			return "undecided", "the database of a queued command, but not visibly the last one"
		}
	}
	// what else it is, for the message
	switch x := k.(type) {
	case *ssa.Const:
		return "other", "a constant"
	case *ssa.UnOp:
		if x.Op == token.MUL {
			if cell := core.Cell(x.X); cell != nil && cell != c.queue {
				outside := 0
				for _, st := range core.CellStores(cell) {
					if st.Parent() != c.once {
						outside++
					}
				}
				if outside > 0 || cell.Parent() != c.once {
					return "other", "a variable that outlives the batch: it is assigned outside the batch sender, i.e. remembered from an earlier batch"
				}
			}
		}
	case *ssa.Parameter:
		return "undecided", "a parameter of the batch sender"
	}
	if base != nil {
		return "undecided", "the Db field of a value the rule cannot follow to the command queue"
	}
	return "undecided", "a value of unknown origin: " + k.String()
}

// ---------------------------------------------------------------- R04.12 an error of applying an entry ends the replay worker

// ruleEntryErrorEndsWorker: a snapshot replay worker takes entries off its pipe one by one and reports one result
// when it returns; sendRdb records the full sync as complete when every result is nil (R04.1). So a worker that
// has seen the target refuse an entry must end with an error: if it goes on to the next entry, or returns nil, the
// entry is missing on the target and the resume position moves to the snapshot's offset all the same.
//
// Decided per call, from the call onwards (not over whole iterations: a retry loop may need more passes than any
// unrolling bound to run out of attempts). For every call in the per-entry loop of a worker that is handed the
// entry or something made from it and reports an error: on no path that starts at the call and has seen that
// error non-nil does the worker arrive at the head of the per-entry loop or return a nil error, unless the path
// (a) first makes the same call again - a retry, whose own outcome is judged from there -, or (b) left through a
// cancelled replay context (R04.2 covers cancellation after collection).
func ruleEntryErrorEndsWorker(w *core.World, r *core.Report) {
	errT := types.Universe.Lookup("error").Type()
	isEntryT := func(t types.Type) bool {
		p, ok := t.Underlying().(*types.Pointer)
		return ok && strings.HasSuffix(core.TypeName(p.Elem()), "rdb.BinEntry")
	}
	isEntryChan := func(t types.Type) bool {
		ch, ok := t.Underlying().(*types.Chan)
		return ok && isEntryT(ch.Elem())
	}
	errIndex := func(v ssa.Value) bool {
		switch t := v.Type().(type) {
		case *types.Tuple:
			return t.Len() > 0 && types.Identical(t.At(t.Len()-1).Type(), errT)
		default:
			return types.Identical(v.Type(), errT)
		}
	}
	n := 0
	for _, name := range []string{"(*syncer.RedisOutput).rdbReplay", "(*syncer.RedisOutput).rdbReplayBisync", "(*syncer.RedisOutput).rdbReplayBisyncGlobal"} {
		g := fn(w, r, name)
		if g == nil {
			continue
		}
		cons := shortName(name) + "/entry-error-ends-worker"
		// the per-entry loop: the loop around the receive from the entry pipe (or around the call that is handed the pipe)
		var head *ssa.BasicBlock
		for _, in := range core.OwnInstrs(g) {
			switch x := in.(type) {
			case *ssa.Select:
				for _, st := range x.States {
					if st.Dir == types.RecvOnly && isEntryChan(st.Chan.Type()) {
						head = core.LoopHeadOf(x.Block())
					}
				}
			case *ssa.UnOp:
				if x.Op == token.ARROW && isEntryChan(x.X.Type()) {
					head = core.LoopHeadOf(x.Block())
				}
			case *ssa.Call:
				// the receive given a name: a call that is handed the pipe
				for _, a := range x.Call.Args {
					if isEntryChan(a.Type()) && head == nil {
						head = core.LoopHeadOf(x.Block())
					}
				}
			}
		}
		if head == nil {
			r.Undecided(cons, g.Pos(), "the loop that takes snapshot entries off the pipe was not found")
			n++
			continue
		}
		// what is made from the entry (flow-insensitive, within the worker): the entry, what is read from it,
		// what calls that are handed such a value return, variables such values are stored in
		tainted := map[ssa.Value]bool{}
		for changed := true; changed; {
			changed = false
			mark := func(v ssa.Value) {
				if v != nil && !tainted[v] {
					tainted[v], changed = true, true
				}
			}
			for _, in := range core.OwnInstrs(g) {
				if st, ok := in.(*ssa.Store); ok {
					if tainted[st.Val] {
						if a, isA := st.Addr.(*ssa.Alloc); isA {
							mark(a)
						}
					}
					continue
				}
				v, ok := in.(ssa.Value)
				if !ok || tainted[v] {
					continue
				}
				if isEntryT(v.Type()) {
					mark(v)
					continue
				}
				if _, isAlloc := v.(*ssa.Alloc); isAlloc {
					continue
				}
				for _, op := range in.Operands(nil) {
					if *op != nil && tainted[*op] {
						mark(v)
						break
					}
				}
			}
		}
		var calls []*ssa.Call
		for _, in := range core.OwnInstrs(g) {
			c, ok := in.(*ssa.Call)
			if !ok || !inLoop(c.Block(), head) && c.Block() != head || !errIndex(c) {
				continue
			}
			handed := false
			for _, a := range c.Call.Args {
				if tainted[a] {
					handed = true
				}
			}
			if c.Call.IsInvoke() && tainted[c.Call.Value] {
				handed = true
			}
			if handed {
				calls = append(calls, c)
			}
		}
		n++
		if len(calls) == 0 {
			r.Fail(cons, g.Pos(), "no call in the per-entry loop is handed the snapshot entry (or something made from it) and reports an error: the worker applies nothing it could fail on")
			continue
		}
		bad, undecided := "", ""
		var badPos token.Pos
		var names []string
		for _, c := range calls {
			site := core.ResolveCall(c)
			names = append(names, shortCallee(site))
			idx := -1
			for i, in := range c.Block().Instrs {
				if in == ssa.Instruction(c) {
					idx = i
				}
			}
			sameCall := func(in ssa.Instruction) bool {
				o, ok := in.(*ssa.Call)
				if !ok || o == c {
					return false
				}
				os := core.ResolveCall(o)
				if site.Callee != nil {
					return os.Callee == site.Callee
				}
				return os.Name == site.Name
			}
			okEnum := core.EnumPathsStop(c.Block(), idx, 200000, core.Unroll, func(b *ssa.BasicBlock) bool { return b == head }, func(p *core.Path) {
				if bad != "" || !failedOn(p, c) {
					return
				}
				for i, in := range p.Instrs {
					if i > 0 && sameCall(in) {
						return // a retry: judged from that call
					}
				}
				if p.Closed && c.Block() != head {
					return // back at the same call: a retry
				}
				// the path tested the variable that holds the failing call's error and took the 'nil' side: the path
				// engine keeps loop-head phis symbolic, here the value is the error seen non-nil - not a path
				cursor := 0
				for _, f := range p.Conds {
					if f.If == nil {
						continue
					}
					at := -1
					for k := cursor; k < len(p.Blocks); k++ {
						if p.Blocks[k] == f.If.Block() {
							at = k
							break
						}
					}
					if at < 0 {
						continue
					}
					cursor = at
					if cmp, ok := core.FactCmp(f); ok && cmp.Op == token.EQL && (core.IsNilConst(cmp.Y) || core.IsNilConst(cmp.X)) {
						x := cmp.X
						if core.IsNilConst(x) {
							x = cmp.Y
						}
						if errorHeldAt(p, x, at, c) {
							return
						}
					}
				}
				cancelled := false
				for _, in := range p.Instrs {
					sel, ok := in.(*ssa.Select)
					if !ok {
						continue
					}
					for k, st := range sel.States {
						if st.Dir == types.RecvOnly && isCtxDone(st.Chan) {
							if cb := caseBlock(sel, k); cb != nil {
								for _, b := range p.Blocks {
									if b == cb {
										cancelled = true
									}
								}
							}
						}
					}
				}
				arrives := p.Closed || (p.End != nil && len(head.Instrs) > 0 && p.End == head.Instrs[0] && p.Blocks[len(p.Blocks)-1] == head)
				what := ""
				switch {
				case arrives:
					what = "goes on to take the next entry"
				default:
					ret, isRet := p.End.(*ssa.Return)
					if !isRet || ret.Parent() != g || len(ret.Results) == 0 || cancelled {
						return
					}
					if !pathNil(p, ret.Results[len(ret.Results)-1]) {
						return
					}
					what = "returns a nil error"
				}
				bad = "the error of " + site.Name + " (a snapshot entry, or something made from it, handed on towards the target) is seen non-nil on this path, yet the worker " + what + ": the entry the target refused is skipped, the worker's result is nil, and sendRdb records the full sync as complete - the resume position moves to the snapshot's offset although the target lacks the entry. The error must end the worker (after a retry loop the value tested has to be the one the attempts assigned: a ':=' inside the loop declares a new variable, the outer one stays nil)"
				badPos = c.Pos()
				if ret, isRet := p.End.(*ssa.Return); isRet && ret.Pos().IsValid() {
					badPos = ret.Pos()
				}
			})
			if !okEnum && undecided == "" {
				undecided = "too many paths from the call of " + site.Name + " to the end of the iteration"
			}
		}
		switch {
		case bad != "":
			r.Fail(cons, badPos, "%s", bad)
		case undecided != "":
			r.Undecided(cons, g.Pos(), "%s", undecided)
		default:
			r.OK(cons, g.Pos(), "%d call(s): %s", len(calls), strings.Join(names, ", "))
		}
	}
	if n == 0 {
		r.Fail("snapshot-workers/entry-error-ends-worker", token.NoPos, "no snapshot replay worker found")
	}
}

// errorHeldAt: the value x, tested in the block at position pos of the path's block sequence, is the error result
// of call c on this path. The path engine keeps the phis of loop heads symbolic; here they are read by the edge the
// path really came in on (the variable a retry loop assigns the attempt's error to, tested after the loop).
func errorHeldAt(p *core.Path, x ssa.Value, pos int, c *ssa.Call) bool {
	v := x
	for depth := 0; depth < 8; depth++ {
		v = p.Resolve(v)
		switch y := v.(type) {
		case *ssa.Call:
			return y == c
		case *ssa.Extract:
			return y.Tuple == ssa.Value(c)
		case *ssa.Phi:
			hb := y.Block()
			j := -1
			for k := pos; k >= 1; k-- {
				if k < len(p.Blocks) && p.Blocks[k] == hb {
					j = k
					break
				}
			}
			if j < 1 {
				return false
			}
			e := -1
			for k, pr := range hb.Preds {
				if pr == p.Blocks[j-1] {
					e = k
				}
			}
			if e < 0 {
				return false
			}
			v, pos = y.Edges[e], j-1
		default:
			return false
		}
	}
	return false
}
