package rules

import (
	"go/token"
	"go/types"

	"gunyucheck/core"

	"golang.org/x/tools/go/ssa"
)

// Helpers for shapes in which a function keeps its working state in a small
// record that is handed to helpers by pointer (a state object with methods)
// instead of in local variables.

// latchField: fa names a boolean field that, in every record of its type,
// starts false and is only ever set to true — the record form of a loop-carried
// "seen" flag (isSeenFlag). Decided program-wide over the record type: every
// store into that field (same record type, same field) stores the constant
// true and at least one does; the field's address is used for nothing but
// direct loads and stores; no record of the type is ever overwritten as a whole
// (a copy could bring back false); records come into being zeroed (Go
// allocation), so the field starts false.
func latchField(w *core.World, fa *ssa.FieldAddr) bool {
	rt := recordOf(fa)
	st, ok := rt.Underlying().(*types.Struct)
	if !ok || fa.Field >= st.NumFields() {
		return false
	}
	if b, isB := st.Field(fa.Field).Type().Underlying().(*types.Basic); !isB || b.Kind() != types.Bool {
		return false
	}
	if _, named := rt.(*types.Named); !named {
		return false
	}
	setTrue := false
	for _, g := range w.Funcs() {
		for _, in := range core.OwnInstrs(g) {
			switch x := in.(type) {
			case *ssa.Store:
				// (stores into the field itself are judged at the field address below)
				if pt, isP := x.Addr.Type().Underlying().(*types.Pointer); isP && types.Identical(pt.Elem(), rt) {
					return false // a record of the type replaced as a whole
				}
			case *ssa.FieldAddr:
				if x.Field != fa.Field || !types.Identical(recordOf(x), rt) {
					continue
				}
				refs := x.Referrers()
				if refs == nil {
					continue
				}
				for _, rf := range *refs {
					switch y := rf.(type) {
					case *ssa.Store:
						if y.Addr != ssa.Value(x) {
							return false // the field's address stored somewhere
						}
						if v, isC := core.ConstBool(y.Val); !isC || !v {
							return false
						}
						setTrue = true
					case *ssa.UnOp:
						if y.Op != token.MUL {
							return false
						}
					case *ssa.DebugRef:
					default:
						return false // the field's address goes somewhere else
					}
				}
			}
		}
	}
	return setTrue
}

// sameReadUnchanged: a and b are one value — the same SSA value, or two reads of
// the same field of the same record (same base value) made in one basic block
// with nothing in between that could write that field: no call or other
// instruction that runs foreign code, and only stores into fields of other
// record types / other fields, or into local variables.
func sameReadUnchanged(a, b ssa.Value) bool {
	a, b = core.Unwrap(a), core.Unwrap(b)
	if a == b {
		return true
	}
	la, ok1 := a.(*ssa.UnOp)
	lb, ok2 := b.(*ssa.UnOp)
	if !ok1 || !ok2 || la.Op != token.MUL || lb.Op != token.MUL || la.Block() != lb.Block() {
		return false
	}
	fa, ok1 := la.X.(*ssa.FieldAddr)
	fb, ok2 := lb.X.(*ssa.FieldAddr)
	if !ok1 || !ok2 || fa.Field != fb.Field || core.Unwrap(fa.X) != core.Unwrap(fb.X) {
		return false
	}
	rt := recordOf(fa)
	between := false
	for _, in := range la.Block().Instrs {
		if in == ssa.Instruction(la) || in == ssa.Instruction(lb) {
			if between {
				return true
			}
			between = true
			continue
		}
		if !between {
			continue
		}
		switch x := in.(type) {
		case *ssa.Store:
			switch ad := x.Addr.(type) {
			case *ssa.FieldAddr:
				if ad.Field == fa.Field && types.Identical(recordOf(ad), rt) {
					return false
				}
			case *ssa.Alloc:
				if pt, isP := ad.Type().Underlying().(*types.Pointer); isP && types.Identical(pt.Elem(), rt) {
					return false
				}
			default:
				return false
			}
		case *ssa.FieldAddr, *ssa.IndexAddr, *ssa.UnOp, *ssa.BinOp, *ssa.Convert, *ssa.ChangeType, *ssa.Alloc, *ssa.Slice,
			*ssa.MakeInterface, *ssa.ChangeInterface, *ssa.Field, *ssa.Index, *ssa.Extract, *ssa.Phi, *ssa.DebugRef, *ssa.Lookup:
			if u, isU := x.(*ssa.UnOp); isU && u.Op == token.ARROW {
				return false // a receive lets other code run
			}
		default:
			return false // calls, sends, selects, defers, map updates ...: not looked into
		}
	}
	return false
}

// madeErrorOutside: v is an error built on the spot (fmt.Errorf / errors.New)
// by a function other than f — on a path of f, by a helper the path stepped
// into. A test `err != nil` of such a value in f decides nothing: the helper
// decided, on the facts before it.
func madeErrorOutside(v ssa.Value, f *ssa.Function) bool {
	c, ok := core.Unwrap(v).(*ssa.Call)
	if !ok || c.Parent() == f {
		return false
	}
	g := c.Call.StaticCallee()
	if g == nil || g.Pkg == nil {
		return false
	}
	switch g.Pkg.Pkg.Path() + "." + g.Name() {
	case "fmt.Errorf", "errors.New":
		return true
	}
	return false
}
