package rules

import (
	"go/token"
	"strings"

	"gunyucheck/core"

	"golang.org/x/tools/go/ssa"
)

// ---------------------------------------------------------------- R18.14 a key resolution keeps nothing of the command it resolved

// The keys a replay unit is judged on (single slot or refused; which slot) are
// the keys of *this* command: they come from the command's name and arguments
// through the static key table, or from what the target answers for exactly
// this argument list (COMMAND GETKEYS). Where the keys of a command sit depends
// on its arguments (numkeys, optional flags, STORE clauses), so nothing learned
// from one command says where the keys of the next one are. The rule states it
// as "who may write what": while the resolver runs, no memory that outlives the
// call (a variable of the function that built the resolver, a package-level
// variable, a field of a longer-lived object) is written with a value computed
// from the command or from its answer and read back by a resolution. The
// lazily opened connection is such memory, but what is stored there does not
// depend on any command.

const (
	originLocal    = iota // memory of the running resolution (or of the command handed in)
	originOutlives        // memory that is still there at the next resolution
	originUnknown
)

type memOrigin struct {
	kind int
	root ssa.Value
	path string // field names from the root to the location, "." separated
	why  string
}

type resolutionTree struct {
	in       map[*ssa.Function]bool
	order    []*ssa.Function
	bindings map[*ssa.Parameter][]ssa.Value // what the calls inside the tree pass for a parameter
}

func inResolutionScope(f *ssa.Function) bool {
	if f == nil || len(f.Blocks) == 0 {
		return false
	}
	p := f.Pkg
	if p == nil && f.Parent() != nil {
		p = f.Parent().Pkg
	}
	if p == nil {
		if o := f.Origin(); o != nil {
			p = o.Pkg
		}
	}
	if p == nil {
		return false
	}
	path := p.Pkg.Path()
	if !strings.HasPrefix(path, core.ModulePath) {
		return false
	}
	switch strings.TrimPrefix(strings.TrimPrefix(path, core.ModulePath), "/") {
	case "syncer", "pkg/filter", "pkg/redis/keyspec":
		return true
	}
	return false
}

// boundMethod: the method a `x.m` method value wraps (a synthetic closure with the receiver as its only binding).
func boundMethod(fn *ssa.Function) *ssa.Function {
	if fn.Synthetic == "" {
		return nil
	}
	for _, in := range core.OwnInstrs(fn) {
		if c, ok := in.(*ssa.Call); ok && c.Call.StaticCallee() != nil && len(c.Call.Args) > 0 {
			if _, isFv := c.Call.Args[0].(*ssa.FreeVar); isFv {
				return c.Call.StaticCallee()
			}
		}
	}
	return nil
}

func buildResolutionTree(root *ssa.Function) *resolutionTree {
	t := &resolutionTree{in: map[*ssa.Function]bool{}, bindings: map[*ssa.Parameter][]ssa.Value{}}
	add := func(f *ssa.Function) {
		if f != nil && !t.in[f] && inResolutionScope(f) {
			t.in[f] = true
			t.order = append(t.order, f)
		}
	}
	add(root)
	for i := 0; i < len(t.order); i++ {
		g := t.order[i]
		for _, in := range core.OwnInstrs(g) {
			switch x := in.(type) {
			case ssa.CallInstruction:
				s := core.ResolveCall(x)
				if s.Callee == nil || !inResolutionScope(s.Callee) {
					continue
				}
				add(s.Callee)
				args := x.Common().Args
				for k, p := range s.Callee.Params {
					if k < len(args) {
						t.bindings[p] = append(t.bindings[p], args[k])
					}
				}
			case *ssa.MakeClosure:
				fn, ok := x.Fn.(*ssa.Function)
				if !ok {
					continue
				}
				if m := boundMethod(fn); m != nil {
					add(m)
					if len(m.Params) > 0 && len(x.Bindings) == 1 {
						t.bindings[m.Params[0]] = append(t.bindings[m.Params[0]], x.Bindings[0])
					}
					continue
				}
				add(fn)
			}
		}
	}
	return t
}

// origin: where the memory a value points into (or is) lives.
func (t *resolutionTree) origin(v ssa.Value, suffix string, seen map[ssa.Value]bool) []memOrigin {
	if v == nil {
		return nil
	}
	key := v
	if seen[key] {
		return nil
	}
	seen[key] = true
	defer delete(seen, key)
	switch x := v.(type) {
	case *ssa.Alloc:
		if t.in[x.Parent()] {
			// a cell of the running resolution that holds a pointer: the pointer is what was stored there
			if suffix != "" && strings.HasPrefix(suffix, "*") {
				var out []memOrigin
				for _, st := range core.CellStores(x) {
					if st.Addr == ssa.Value(x) || core.Cell(st.Addr) == x {
						out = append(out, t.origin(st.Val, strings.TrimPrefix(suffix, "*"), seen)...)
					}
				}
				if len(out) > 0 {
					return out
				}
			}
			return []memOrigin{{kind: originLocal, root: x}}
		}
		return []memOrigin{{kind: originOutlives, root: x, path: cleanPath(suffix), why: "a variable of " + shortName(core.FuncName(x.Parent())) + " (" + x.Comment + "), which lives as long as the resolver"}}
	case *ssa.Global:
		return []memOrigin{{kind: originOutlives, root: x, path: cleanPath(suffix), why: "the package-level variable " + x.Name()}}
	case *ssa.FreeVar:
		b := core.Binding(x)
		if b == nil {
			return []memOrigin{{kind: originUnknown, root: x, why: "a captured variable whose binding was not found"}}
		}
		return t.origin(b, suffix, seen)
	case *ssa.Parameter:
		if !t.in[x.Parent()] {
			return []memOrigin{{kind: originOutlives, root: x, path: cleanPath(suffix), why: "an object of " + shortName(core.FuncName(x.Parent())) + " (" + x.Name() + "), which lives longer than one resolution"}}
		}
		bs := t.bindings[x]
		if len(bs) == 0 {
			// handed in by the caller of the resolution: the command itself, a node's reply
			return []memOrigin{{kind: originLocal, root: x}}
		}
		var out []memOrigin
		for _, b := range bs {
			out = append(out, t.origin(b, suffix, seen)...)
		}
		return out
	case *ssa.FieldAddr:
		return t.origin(x.X, "."+core.FieldName(x)+suffix, seen)
	case *ssa.Field:
		return t.origin(x.X, "."+core.FieldName(x)+suffix, seen)
	case *ssa.IndexAddr:
		return t.origin(x.X, suffix, seen)
	case *ssa.Index:
		return t.origin(x.X, suffix, seen)
	case *ssa.Lookup:
		return t.origin(x.X, suffix, seen)
	case *ssa.Slice:
		return t.origin(x.X, suffix, seen)
	case *ssa.ChangeType:
		return t.origin(x.X, suffix, seen)
	case *ssa.Convert:
		return t.origin(x.X, suffix, seen)
	case *ssa.MakeInterface:
		return t.origin(x.X, suffix, seen)
	case *ssa.ChangeInterface:
		return t.origin(x.X, suffix, seen)
	case *ssa.TypeAssert:
		return t.origin(x.X, suffix, seen)
	case *ssa.UnOp:
		if x.Op == token.MUL {
			return t.origin(x.X, "*"+suffix, seen)
		}
		return nil
	case *ssa.Phi:
		var out []memOrigin
		for _, e := range x.Edges {
			out = append(out, t.origin(e, suffix, seen)...)
		}
		return out
	case *ssa.Extract:
		if c, ok := x.Tuple.(*ssa.Call); ok {
			return t.callResultOrigin(c, x.Index, suffix, seen)
		}
		return t.origin(x.Tuple, suffix, seen)
	case *ssa.Call:
		return t.callResultOrigin(x, 0, suffix, seen)
	case *ssa.MakeMap, *ssa.MakeSlice, *ssa.MakeChan, *ssa.MakeClosure:
		if in, ok := v.(ssa.Instruction); ok && t.in[in.Parent()] {
			return []memOrigin{{kind: originLocal, root: v}}
		}
		return []memOrigin{{kind: originOutlives, root: v, path: cleanPath(suffix), why: "an object made outside the resolution"}}
	case *ssa.Const, *ssa.Function, *ssa.Builtin:
		return nil
	}
	return []memOrigin{{kind: originUnknown, root: v, why: v.Name() + " (" + v.Type().String() + ")"}}
}

func (t *resolutionTree) callResultOrigin(c *ssa.Call, idx int, suffix string, seen map[ssa.Value]bool) []memOrigin {
	if _, isB := isBuiltinCall(c, "append"); isB && len(c.Call.Args) > 0 {
		return t.origin(c.Call.Args[0], suffix, seen)
	}
	if _, isB := c.Call.Value.(*ssa.Builtin); isB {
		return nil
	}
	s := core.ResolveCall(c)
	if s.Callee != nil && t.in[s.Callee] {
		var out []memOrigin
		for _, in := range core.OwnInstrs(s.Callee) {
			if ret, ok := in.(*ssa.Return); ok && idx < len(ret.Results) {
				out = append(out, t.origin(ret.Results[idx], suffix, seen)...)
			}
		}
		return out
	}
	// what another function hands back: not memory the resolution is known to share with the next one
	return []memOrigin{{kind: originUnknown, root: c, why: "the result of " + s.Name}}
}

func cleanPath(s string) string {
	return strings.ReplaceAll(s, "*", "")
}

// sameMemory: the read location is the written one or a part of it.
func sameMemory(wr, rd memOrigin) bool {
	return wr.kind == originOutlives && rd.kind == originOutlives && wr.root == rd.root && strings.HasPrefix(rd.path, wr.path)
}

func ruleResolutionKeepsNothing(w *core.World, r *core.Report) {
	const construct = "newBisyncCommandKeyResolver/resolution-keeps-nothing"
	factory := fn(w, r, "(*syncer.RedisOutput).newBisyncCommandKeyResolver")
	if factory == nil {
		return
	}
	// the resolver: the closure the factory returns as its bisyncCommandKeyResolver result
	var resolver *ssa.Function
	many := false
	for _, ret := range core.ReturnsX(factory) {
		for i, rv := range ret.Results {
			if !strings.HasSuffix(core.TypeName(factory.Signature.Results().At(i).Type()), "bisyncCommandKeyResolver") {
				continue
			}
			for _, v := range core.FlowVals(rv) {
				v = core.Unwrap(v)
				var f *ssa.Function
				switch x := v.(type) {
				case *ssa.MakeClosure:
					f, _ = x.Fn.(*ssa.Function)
				case *ssa.Function:
					f = x
				}
				if f == nil {
					many = true
				} else if resolver != nil && resolver != f {
					many = true
				} else {
					resolver = f
				}
			}
		}
	}
	if resolver == nil || many {
		r.Undecided(construct, factory.Pos(), "the function the parser resolves the keys of a command with was not found as the one closure (or function) newBisyncCommandKeyResolver returns")
		return
	}
	t := buildResolutionTree(resolver)
	// what is computed from the command: the resolver's own parameters, what the calls inside the resolution pass on
	// of them, and what a callback is handed by whoever it was given to (a node's reply)
	cmdParam := map[*ssa.Parameter]bool{}
	isCommand := func(v ssa.Value) bool {
		p, ok := v.(*ssa.Parameter)
		return ok && cmdParam[p]
	}
	for _, g := range t.order {
		for _, p := range g.Params {
			if g == resolver || (len(t.bindings[p]) == 0 && g.Parent() != nil) {
				cmdParam[p] = true
			}
		}
	}
	// a bound method handed out as a callback: its parameters other than the receiver are handed in from outside
	for _, g := range t.order {
		for _, in := range core.OwnInstrs(g) {
			if mc, ok := in.(*ssa.MakeClosure); ok {
				if fn, isFn := mc.Fn.(*ssa.Function); isFn {
					if m := boundMethod(fn); m != nil && t.in[m] {
						for _, p := range m.Params[1:] {
							if len(t.bindings[p]) == 0 {
								cmdParam[p] = true
							}
						}
					}
				}
			}
		}
	}
	for changed := true; changed; {
		changed = false
		for p, bs := range t.bindings {
			if cmdParam[p] {
				continue
			}
			for _, b := range bs {
				if core.DependsOnDeep(b, isCommand) {
					cmdParam[p] = true
					changed = true
					break
				}
			}
		}
	}
	type access struct {
		in     ssa.Instruction
		origin memOrigin
	}
	var writes, reads []access
	var undecided []string
	for _, g := range t.order {
		for _, in := range core.OwnInstrs(g) {
			switch x := in.(type) {
			case *ssa.Store:
				if !core.DependsOnDeep(x.Val, isCommand) {
					continue
				}
				for _, o := range t.origin(x.Addr, "", map[ssa.Value]bool{}) {
					switch o.kind {
					case originOutlives:
						writes = append(writes, access{in, o})
					case originUnknown:
						undecided = append(undecided, w.Pos(in.Pos())+": a value computed from the command is stored through "+o.why)
					}
				}
			case *ssa.MapUpdate:
				if !core.DependsOnDeep(x.Key, isCommand) && !core.DependsOnDeep(x.Value, isCommand) {
					continue
				}
				for _, o := range t.origin(x.Map, "", map[ssa.Value]bool{}) {
					switch o.kind {
					case originOutlives:
						o.path += ".[]"
						writes = append(writes, access{in, o})
					case originUnknown:
						undecided = append(undecided, w.Pos(in.Pos())+": a value computed from the command is put into a map that is "+o.why)
					}
				}
			case *ssa.Lookup:
				for _, o := range t.origin(x.X, "", map[ssa.Value]bool{}) {
					if o.kind == originOutlives {
						o.path += ".[]"
						reads = append(reads, access{in, o})
					}
				}
			case *ssa.Range:
				for _, o := range t.origin(x.X, "", map[ssa.Value]bool{}) {
					if o.kind == originOutlives {
						o.path += ".[]"
						reads = append(reads, access{in, o})
					}
				}
			case *ssa.UnOp:
				if x.Op != token.MUL {
					continue
				}
				for _, o := range t.origin(x.X, "", map[ssa.Value]bool{}) {
					if o.kind == originOutlives {
						reads = append(reads, access{in, o})
					}
				}
			case *ssa.Call:
				// a method of a library container (sync.Map, list, …) called on memory that outlives the resolution
				callee := x.Call.StaticCallee()
				if callee == nil || inModule(callee) || callee.Signature.Recv() == nil || len(x.Call.Args) < 2 {
					continue
				}
				dep := false
				for _, a := range x.Call.Args[1:] {
					if core.DependsOnDeep(a, isCommand) {
						dep = true
					}
				}
				for _, o := range t.origin(x.Call.Args[0], "", map[ssa.Value]bool{}) {
					if o.kind != originOutlives {
						continue
					}
					o.path += ".()"
					reads = append(reads, access{in, o})
					if dep {
						writes = append(writes, access{in, o})
					}
				}
			}
		}
	}
	for _, wr := range writes {
		for _, rd := range reads {
			if rd.in == wr.in || !sameMemory(wr.origin, rd.origin) {
				continue
			}
			r.Fail(construct, wr.in.Pos(), "while the keys of a command are resolved, a value computed from that command (its name, its arguments or the keys found for it) is written to %s, and a resolution reads it back (%s): what one command looked like decides where the keys of a later one are taken from. Key positions depend on the arguments of each command (numkeys, optional flags, STORE clauses), so a later occurrence is judged on arguments that are not its keys: a unit whose keys span slots is sent as single-slot to the slot of a non-key, or a single-slot unit is refused. Every command must be resolved from its own arguments (static table, else COMMAND GETKEYS for exactly this argument list)",
				wr.origin.why, w.Pos(rd.in.Pos()))
			return
		}
	}
	if len(undecided) > 0 {
		r.Undecided(construct, resolver.Pos(), "cannot tell whether the resolution of one command leaves something behind for the next one: %s", strings.Join(undecided, "; "))
		return
	}
	r.OK(construct, resolver.Pos(), "")
}

// c11own: the obligations of C11 that are not obligations of the properties that share the slot-function rules
// (C01, C10 and C18 call c11 for R11.1-R11.5).
func c11own(w *core.World, r *core.Report) {
	c11(w, r)
	r.Rule("R18.14", "bidirectional units are grouped by the slots of their own keys: the keys hashed for a command are resolved from that command alone, a resolution keeps nothing of the command it resolved (shared with C18)", 1)
	ruleResolutionKeepsNothing(w, r)
}

func inModule(f *ssa.Function) bool {
	p := f.Pkg
	if p == nil {
		if o := f.Origin(); o != nil {
			p = o.Pkg
		}
	}
	if p == nil && f.Parent() != nil {
		p = f.Parent().Pkg
	}
	return p != nil && strings.HasPrefix(p.Pkg.Path(), core.ModulePath)
}
