package rules

import (
	"go/token"
	"go/types"
	"strings"

	"gunyucheck/core"

	"golang.org/x/tools/go/ssa"
)

// Helpers added while removing false alarms on the fifth round of independent
// refactorings (agent n1). Every helper states the condition under which two
// spellings denote the same thing; nothing is accepted that it cannot read.

// sameReadOfLocal: a and b are the same value, or two reads of one local
// variable between which the variable cannot have changed. A local that a
// closure captures lives in a cell (an Alloc), and every mention of it is a
// load of its own; two such loads agree when
//   - they are in the same basic block (no branch or loop between them),
//   - no store to the cell and no instruction that can run other code (a call
//     that is not a builtin, go, defer, a channel operation, select) lies
//     between them — the capturing closure could write the cell there, and
//   - the closures that capture the cell are only ever called in place (never
//     started as a goroutine, deferred, stored or handed on), so that nothing
//     writes the cell concurrently.
func sameReadOfLocal(a, b ssa.Value) bool {
	if a == b {
		return true
	}
	la, ok1 := a.(*ssa.UnOp)
	lb, ok2 := b.(*ssa.UnOp)
	if !ok1 || !ok2 || la.Op != token.MUL || lb.Op != token.MUL || la.X != lb.X || la.Block() != lb.Block() {
		return false
	}
	cell, ok := la.X.(*ssa.Alloc)
	if !ok {
		return false
	}
	// who else can touch the cell: only closures called in place
	for _, ref := range *cell.Referrers() {
		switch x := ref.(type) {
		case *ssa.UnOp, *ssa.Store:
			if st, isSt := x.(*ssa.Store); isSt && st.Val == ssa.Value(cell) {
				return false // the address itself is stored somewhere
			}
		case *ssa.DebugRef:
		case *ssa.MakeClosure:
			for _, use := range *x.Referrers() {
				c, isCall := use.(*ssa.Call)
				if _, isDbg := use.(*ssa.DebugRef); isDbg {
					continue
				}
				if !isCall || c.Call.Value != ssa.Value(x) {
					return false
				}
				for _, arg := range c.Call.Args {
					if arg == ssa.Value(x) {
						return false
					}
				}
			}
		default:
			return false
		}
	}
	between := false
	for _, in := range la.Block().Instrs {
		if in == ssa.Instruction(la) || in == ssa.Instruction(lb) {
			if between {
				return true
			}
			between = true
			continue
		}
		if !between {
			continue
		}
		switch x := in.(type) {
		case *ssa.Store:
			if x.Addr == ssa.Value(cell) {
				return false
			}
		case *ssa.Call:
			if _, isBuiltin := x.Call.Value.(*ssa.Builtin); !isBuiltin {
				return false
			}
		case *ssa.Go, *ssa.Defer, *ssa.Send, *ssa.Select, *ssa.Panic, *ssa.RunDefers:
			return false
		case *ssa.UnOp:
			if x.Op == token.ARROW {
				return false
			}
		}
	}
	return false
}

// ---------------------------------------------------------------- R03.9 on paths

// restoreChoiceOnPaths states R03.9 over the paths of one of the two functions
// that choose between one RESTORE and the expansion into native commands:
// on every path on which RESTORE is chosen the path has established that
// RESTORE replay is enabled, that the entry can be restored (CanRestore), that
// its value is not split into chunks, and that the payload does not exceed
// proto-max-bulk-len (a comparison of ValueDumpSize with MaxProtoBulkLen that
// holds as size <= max, in any spelling: `size > max` false, `max >= size`
// true, …). A RESTORE for a split value carries one chunk as if it were the
// value; one above the limit is refused by the target; both lose data of the
// snapshot. How the four tests are arranged (nested ifs, a flag that is
// cleared, one returned conjunction in a helper) does not matter: the facts of
// the path are read, through negations.
//
// chosen(p) tells whether the path chooses RESTORE; when that depends on a value
// the path has not decided (the function returns a boolean expression) it
// returns that value and the outcome that means "RESTORE", and the value
// counts as established with that outcome.
func restoreChoiceOnPaths(w *core.World, f *ssa.Function, chosen func(p *core.Path) (is bool, onV ssa.Value, onVal bool, ok bool)) (bad string, pos token.Pos, n int, enumerated bool) {
	pos = f.Pos()
	isEnabled := func(v ssa.Value) bool {
		v = core.Unwrap(v)
		return core.IsFieldLoad(v, "", "EnableRestore") || core.IsFieldLoad(v, "", "ReplayRdbEnableRestore")
	}
	isCan := func(v ssa.Value) bool { return isIfaceCallName(core.Unwrap(v), "CanRestore") }
	isSplit := func(v ssa.Value) bool { return isIfaceCallName(core.Unwrap(v), "IsSplited") }
	enumerated = core.EnumPathsN(f.Blocks[0], 0, 400000, core.Unroll, func(p *core.Path) {
		if bad != "" {
			return
		}
		is, onV, onVal, ok := chosen(p)
		if !ok {
			bad = "whether this path chooses RESTORE could not be read"
			if p.End != nil {
				pos = p.End.Pos()
			}
			return
		}
		if !is {
			return
		}
		n++
		established := func(pred func(ssa.Value) bool, val bool) bool {
			if pathAssumedN(p, pred, val) {
				return true
			}
			v, outcome := onV, onVal
			for i := 0; v != nil && i < 4; i++ {
				if outcome == val && pred(v) {
					return true
				}
				u, isNot := core.Unwrap(v).(*ssa.UnOp)
				if !isNot || u.Op != token.NOT {
					break
				}
				v, outcome = p.Resolve(u.X), !outcome
			}
			return false
		}
		fits := false
		conds := append([]core.Fact{}, p.Conds...)
		if onV != nil {
			conds = append(conds, core.Fact{Cond: onV, Val: onVal})
		}
		for _, fct := range conds {
			c, isCmp := core.FactCmp(fct)
			if !isCmp {
				if c, isCmp = core.AsCmp(p.Resolve(fct.Cond), fct.Val); !isCmp {
					continue
				}
			}
			isSize := func(v ssa.Value) bool { return isIfaceCallName(core.Unwrap(p.Resolve(v)), "ValueDumpSize") }
			isMax := func(v ssa.Value) bool { return core.IsFieldLoad(core.Unwrap(p.Resolve(v)), "", "MaxProtoBulkLen") }
			switch {
			case (c.Op == token.LEQ || c.Op == token.LSS) && isSize(c.X) && isMax(c.Y):
				fits = true
			case (c.Op == token.GEQ || c.Op == token.GTR) && isMax(c.X) && isSize(c.Y):
				fits = true
			}
		}
		var missing []string
		if !established(isEnabled, true) {
			missing = append(missing, "RESTORE replay is enabled")
		}
		if !established(isCan, true) {
			missing = append(missing, "the entry can be restored (CanRestore)")
		}
		if !established(isSplit, false) {
			missing = append(missing, "the value is not split (IsSplited false)")
		}
		if !fits {
			missing = append(missing, "the payload fits (ValueDumpSize <= MaxProtoBulkLen)")
		}
		if len(missing) > 0 {
			bad = "RESTORE is chosen on a path that has not established: " + strings.Join(missing, "; ")
			if p.End != nil {
				pos = p.End.Pos()
			}
		}
	})
	return
}

// pathAssumedN is pathAssumed reading through negations: a condition that
// resolves to `!x` (the last operand of `return a && !b` in a helper the path
// stepped into, a flag `ok := !x`) with outcome o is the fact "x is !o".
func pathAssumedN(p *core.Path, is func(ssa.Value) bool, val bool) bool {
	for _, f := range p.Conds {
		v, outcome := p.Resolve(f.Cond), f.Val
		if outcome == val && is(v) {
			return true
		}
		for i := 0; i < 4; i++ {
			u, isNot := core.Unwrap(v).(*ssa.UnOp)
			if !isNot || u.Op != token.NOT {
				break
			}
			v, outcome = p.Resolve(u.X), !outcome
			if outcome == val && is(v) {
				return true
			}
		}
	}
	return false
}

// passedOnEveryReturn: every path from the entry of g to one of its normal
// returns executes an instruction satisfying is — directly, or by calling a
// function of which the same holds (three levels). A call of g is then as good
// as the instruction itself for a "no path avoids it" rule of the caller. A
// path of g that ends in a panic returns nothing to the caller and is not a way
// round.
func passedOnEveryReturn(g *ssa.Function, is func(ssa.Instruction) bool, depth int) bool {
	if g == nil || len(g.Blocks) == 0 || depth > 3 {
		return false
	}
	blocker := func(in ssa.Instruction) bool {
		if is(in) {
			return true
		}
		if c, ok := in.(*ssa.Call); ok && !c.Call.IsInvoke() {
			if h := c.Call.StaticCallee(); h != nil && h != g {
				return passedOnEveryReturn(h, is, depth+1)
			}
		}
		return false
	}
	isRet := func(in ssa.Instruction) bool { _, ok := in.(*ssa.Return); return ok }
	return core.PathFromBlock(g.Blocks[0], isRet, blocker) == nil
}

// ---------------------------------------------------------------- R06.3: which start point a helper was handed

// precedesOnPath: a is executed before b on the path.
func precedesOnPath(p *core.Path, a, b ssa.Instruction) bool {
	seenA := false
	for _, in := range p.Instrs {
		if in == a {
			seenA = true
		}
		if in == b {
			return seenA && a != b
		}
	}
	return false
}

// startPointHandedOver: recv is the receiver of the ToOffset call whose result
// is sent with PSYNC (at `at`). It is one of the variables themselves, or — when
// a helper (a closure, a method) sends the PSYNC for a start point it was handed
// by value — the helper's own copy of its parameter: a local assigned exactly
// once, from a value that on this path is a read of one of the variables, and
// between that read and the PSYNC the path neither assigns the variable (or a
// field of it) nor hands its address to anything. The copy is then the value
// the variable has when the PSYNC goes out. Returns the variable and the read.
func startPointHandedOver(p *core.Path, recv ssa.Value, at ssa.Instruction, vars ...*ssa.Alloc) (*ssa.Alloc, ssa.Instruction) {
	for _, v := range vars {
		if recv == ssa.Value(v) {
			return v, nil
		}
	}
	b, ok := recv.(*ssa.Alloc)
	if !ok {
		return nil, nil
	}
	sts := core.CellStores(b)
	if len(sts) != 1 || sts[0].Addr != ssa.Value(b) {
		return nil, nil
	}
	// the address of the copy goes to method calls only as their receiver (ToOffset and the like read it);
	// it is not written through
	for _, ref := range *b.Referrers() {
		switch x := ref.(type) {
		case *ssa.Store, *ssa.UnOp, *ssa.DebugRef, *ssa.FieldAddr:
			if fa, isFA := x.(*ssa.FieldAddr); isFA {
				for _, fr := range *fa.Referrers() {
					if st, isSt := fr.(*ssa.Store); isSt && st.Addr == ssa.Value(fa) {
						return nil, nil
					}
				}
			}
		case *ssa.Call:
			if !strings.HasSuffix(core.ResolveCall(x).Name, "StartPoint).ToOffset") {
				return nil, nil
			}
		default:
			return nil, nil
		}
	}
	// the first value on the way back from the copy that is a read of one of the variables
	var ld *ssa.UnOp
	var src *ssa.Alloc
	from := sts[0].Val
	if par, isPar := from.(*ssa.Parameter); isPar {
		// the parameter of the helper the path stepped into: what the call on the path handed over, as written
		// at the call (the binding the path keeps is already resolved past the read)
		g := par.Parent()
		k := -1
		for i, q := range g.Params {
			if q == par {
				k = i
			}
		}
		var call *ssa.Call
		for _, in := range p.Instrs {
			if in == at {
				break
			}
			if c, isCall := in.(*ssa.Call); isCall && !c.Call.IsInvoke() && core.ResolveCall(c).Callee == g {
				call = c
			}
		}
		if call == nil || k < 0 || k >= len(call.Call.Args) {
			return nil, nil
		}
		from = call.Call.Args[k]
	}
	p.ResolvesTo(from, func(x ssa.Value) bool {
		u, isLd := x.(*ssa.UnOp)
		if !isLd || u.Op != token.MUL {
			return false
		}
		for _, v := range vars {
			if u.X == ssa.Value(v) {
				ld, src = u, v
				return true
			}
		}
		return false
	})
	if ld == nil {
		return nil, nil
	}
	between := false
	for _, in := range p.Instrs {
		if in == ssa.Instruction(ld) {
			between = true
			continue
		}
		if in == at {
			if !between {
				return nil, nil
			}
			return src, ld
		}
		if !between {
			continue
		}
		for _, op := range in.Operands(nil) {
			if op == nil || *op == nil {
				continue
			}
			// the variable itself, or — in a closure the path stepped into — the captured variable bound to it
			touches := core.Cell(*op) == src
			if fa, isFA := (*op).(*ssa.FieldAddr); isFA && core.Cell(fa.X) == src {
				touches = true
			}
			if !touches {
				continue
			}
			switch x := in.(type) {
			case *ssa.UnOp, *ssa.FieldAddr, *ssa.DebugRef:
			case *ssa.Store:
				if x.Val == *op {
					return nil, nil
				}
				return nil, nil // the variable is assigned between the copy and the PSYNC
			default:
				return nil, nil // its address is handed on (a method with a pointer receiver, a closure)
			}
		}
	}
	return nil, nil
}

// ---------------------------------------------------------------- the sender's request built in a variable

// flushArgsOnPath is flushArgsAt for a call that hands over a request struct
// which is not one plain literal: a private struct variable (its address goes
// nowhere) that was filled by a literal and then adjusted field by field
// (`req := R{…, offset: prev}; if commit { req.offset = last }; send(req)`).
// Each role is the value its field holds on this path when the variable is read
// for the call (core.Path.RecordField).
func (c *senderCtx) flushArgsOnPath(p *core.Path, s core.Site) (args [3]ssa.Value, ok bool) {
	if a, isPlain := c.flushArgsAt(s); isPlain {
		return a, true
	}
	idx, _, isStruct := c.reqFields()
	a := s.Common().Args
	if !isStruct || len(a) != 1 {
		return args, false
	}
	for k := 0; k < 3; k++ {
		v := p.RecordField(core.Unwrap(a[0]), idx[k])
		if v == nil {
			return args, false
		}
		args[k] = v
	}
	return args, true
}

// flushOffsetSources: for the same kind of call, flow-insensitively, every
// value the offset field of the request may hold (core.RecordFieldSources: the
// stores into the field and into the records it is copied from).
func (c *senderCtx) flushOffsetSources(s core.Site) ([]ssa.Value, bool) {
	idx, _, isStruct := c.reqFields()
	a := s.Common().Args
	if !isStruct || len(a) != 1 {
		return nil, false
	}
	ld, ok := core.Unwrap(a[0]).(*ssa.UnOp)
	if !ok || ld.Op != token.MUL {
		return nil, false
	}
	al, ok := ld.X.(*ssa.Alloc)
	if !ok {
		return nil, false
	}
	vals, known := core.RecordFieldSources(al, idx[2])
	if !known || len(vals) == 0 {
		return nil, false
	}
	return vals, true
}

// fieldTestedFalseBefore: g takes a record (its last parameter, by value); the
// result is the index of the boolean field that g has tested to be false
// wherever it calls the method named callee (`if !rec.flag && … { callee() }`).
// Found only when exactly one field qualifies at every such call.
func fieldTestedFalseBefore(g *ssa.Function, callee string) (int, bool) {
	if g == nil || len(g.Params) == 0 {
		return 0, false
	}
	par := g.Params[len(g.Params)-1]
	if _, isStruct := par.Type().Underlying().(*types.Struct); !isStruct {
		return 0, false
	}
	fieldOfPar := func(v ssa.Value) (int, bool) {
		switch x := core.Unwrap(v).(type) {
		case *ssa.Field:
			if x.X == ssa.Value(par) {
				return x.Field, true
			}
		case *ssa.UnOp:
			if fa, isFa := x.X.(*ssa.FieldAddr); isFa && x.Op == token.MUL && spillOf(fa.X) == ssa.Value(par) {
				return fa.Field, true
			}
		}
		return 0, false
	}
	idx, have, calls := 0, false, 0
	for _, s := range core.Sites(g, false) {
		if s.Method != callee || s.Instr.Parent() != g {
			continue
		}
		calls++
		var here []int
		for _, fct := range core.FactsAt(s.Instr.Block()) {
			v, val := fct.Cond, fct.Val
			if fct.Res != nil {
				v = fct.Res
			}
			for {
				u, isNot := core.Unwrap(v).(*ssa.UnOp)
				if !isNot || u.Op != token.NOT {
					break
				}
				v, val = u.X, !val
			}
			if k, isField := fieldOfPar(v); isField && !val {
				here = append(here, k)
			}
		}
		if len(here) != 1 || (have && here[0] != idx) {
			return 0, false
		}
		idx, have = here[0], true
	}
	return idx, have && calls > 0
}
