package rules

import (
	"go/token"

	"golang.org/x/tools/go/ssa"
)

// Helpers added while removing false alarms on the fifth round of independent
// refactorings (agent n1). Every helper states the condition under which two
// spellings denote the same thing; nothing is accepted that it cannot read.

// sameReadOfLocal: a and b are the same value, or two reads of one local
// variable between which the variable cannot have changed. A local that a
// closure captures lives in a cell (an Alloc), and every mention of it is a
// load of its own; two such loads agree when
//   - they are in the same basic block (no branch or loop between them),
//   - no store to the cell and no instruction that can run other code (a call
//     that is not a builtin, go, defer, a channel operation, select) lies
//     between them — the capturing closure could write the cell there, and
//   - the closures that capture the cell are only ever called in place (never
//     started as a goroutine, deferred, stored or handed on), so that nothing
//     writes the cell concurrently.
func sameReadOfLocal(a, b ssa.Value) bool {
	if a == b {
		return true
	}
	la, ok1 := a.(*ssa.UnOp)
	lb, ok2 := b.(*ssa.UnOp)
	if !ok1 || !ok2 || la.Op != token.MUL || lb.Op != token.MUL || la.X != lb.X || la.Block() != lb.Block() {
		return false
	}
	cell, ok := la.X.(*ssa.Alloc)
	if !ok {
		return false
	}
	// who else can touch the cell: only closures called in place
	for _, ref := range *cell.Referrers() {
		switch x := ref.(type) {
		case *ssa.UnOp, *ssa.Store:
			if st, isSt := x.(*ssa.Store); isSt && st.Val == ssa.Value(cell) {
				return false // the address itself is stored somewhere
			}
		case *ssa.DebugRef:
		case *ssa.MakeClosure:
			for _, use := range *x.Referrers() {
				c, isCall := use.(*ssa.Call)
				if _, isDbg := use.(*ssa.DebugRef); isDbg {
					continue
				}
				if !isCall || c.Call.Value != ssa.Value(x) {
					return false
				}
				for _, arg := range c.Call.Args {
					if arg == ssa.Value(x) {
						return false
					}
				}
			}
		default:
			return false
		}
	}
	between := false
	for _, in := range la.Block().Instrs {
		if in == ssa.Instruction(la) || in == ssa.Instruction(lb) {
			if between {
				return true
			}
			between = true
			continue
		}
		if !between {
			continue
		}
		switch x := in.(type) {
		case *ssa.Store:
			if x.Addr == ssa.Value(cell) {
				return false
			}
		case *ssa.Call:
			if _, isBuiltin := x.Call.Value.(*ssa.Builtin); !isBuiltin {
				return false
			}
		case *ssa.Go, *ssa.Defer, *ssa.Send, *ssa.Select, *ssa.Panic, *ssa.RunDefers:
			return false
		case *ssa.UnOp:
			if x.Op == token.ARROW {
				return false
			}
		}
	}
	return false
}
