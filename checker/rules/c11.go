package rules

import (
	"go/ast"
	"go/constant"
	"go/token"
	"sort"
	"strings"

	"gunyucheck/core"

	"golang.org/x/tools/go/ssa"
)

func init() {
	All["C11"] = c11own // c11 plus the rules only C11 itself takes over from C18 (r7_s3_resolver.go)
	core.Explanations["C11"] = "Decides, for every function of the module that derives a cluster slot, the structure every correct implementation of Redis Cluster's HASH_SLOT has: " +
		"(R11.1) digest.Crc16 is called only by the slot functions and no other function masks with 16383 / reduces modulo 16384; (R11.2) the CRC-16 table equals the XMODEM (poly 0x1021) table computed in the checker and the update step is (crc<<8) ^ tab[((crc>>8) ^ b) & 0xff] over all bytes from 0; " +
		"(R11.3) every return is Crc16(x) & 16383; (R11.4) x is the whole key, or key[s+1:e] where s is a first-match scan for '{' from 0 and e a first-match scan for '}' from s+1, the sliced form being returned exactly on the paths where both were found and e != s+1 and the whole-key form exactly otherwise (all return paths enumerated); " +
		"(R11.5) all slot functions have the same summary. Equality with HASH_SLOT for all byte strings follows from these for the recognised scan idioms; a slot function written in another idiom is reported as undecided."
}

const slotMask = 16383

func c11(w *core.World, r *core.Report) {
	r.Rule("R11.1", "who computes slots: callers of digest.Crc16 and users of the 16383 mask are exactly the slot functions", 2)
	slotFns := ruleWhoComputesSlots(w, r)

	r.Rule("R11.2", "CRC-16 table equals XMODEM computed in the checker; update step shape", 2)
	ruleCrc16(w, r)

	var sums []string
	for _, f := range slotFns {
		sums = append(sums, ruleSlotFunction(w, r, f))
	}
	r.Rule("R11.5", "sibling slot functions agree", 1)
	if len(sums) >= 2 {
		same := true
		for _, s := range sums[1:] {
			if s != sums[0] {
				same = false
			}
		}
		r.Check(same, "slot-functions/agree", token.NoPos, "slot functions have different summaries: %v", sums)
	} else {
		r.Fail("slot-functions/agree", token.NoPos, "expected two slot functions (filters/bookkeeping and cluster client), found %d", len(sums))
	}
	r.Rule("R10.2", "every key a command's slot verdict covers is hashed itself: FilterCmdKey keeps a key only after the slot rule (and the prefix rule) judged that key (shared with C10)", 3)
	ruleFilterCmdKeyKeep(w, r)
	r.Rule("R18.10", "on a cluster target a unit's slot is the slot of its keys: the forced-slot mode is for non-cluster targets only (shared with C18)", 1)
	ruleSlotModeByTargetKind(w, r)
	r.Rule("R18.9", "bookkeeping keys are placed by a slot tag: the tag table is read only after it was built (shared with C18)", 1)
	ruleSlotTagTablePublished(w, r)
	r.Rule("R18.4", "the transaction batcher takes a command's slot from its resolved keys (every key hashed with the client's slot function), not from its first argument (shared with C18)", 4)
	ruleTxnBatcherValidation(w, r)
}

func ruleWhoComputesSlots(w *core.World, r *core.Report) []*ssa.Function {
	want := map[string]bool{"pkg/redis.KeyToSlot": true, "pkg/redis/client/cluster.hash": true}
	callers := map[string]*ssa.Function{}
	for _, f := range w.Funcs() {
		for _, s := range core.Sites(f, false) {
			if s.Name == "pkg/digest.Crc16" {
				callers[core.FuncName(f)] = f
			}
		}
		for _, in := range core.Instrs(f) {
			b, ok := in.(*ssa.BinOp)
			if !ok {
				continue
			}
			k, isC := core.ConstInt(b.Y)
			if !isC {
				continue
			}
			if (b.Op == token.AND && k == slotMask) || (b.Op == token.REM && k == slotMask+1) {
				if !want[core.FuncName(f)] {
					r.Fail("private-slot-arithmetic/"+core.FuncName(f), b.Pos(), "a slot is derived outside the slot functions (mask/modulo by the slot count): it can disagree with HASH_SLOT")
				}
			}
		}
	}
	var out []*ssa.Function
	names := make([]string, 0, len(callers))
	for n := range callers {
		names = append(names, n)
	}
	sort.Strings(names)
	for _, n := range names {
		r.Analysed(n)
		r.Check(want[n], "Crc16-caller/"+n, callers[n].Pos(), "digest.Crc16 is called by a function that is not one of the known slot functions; its slot derivation is unchecked")
		out = append(out, callers[n])
	}
	for n := range want {
		if callers[n] == nil {
			r.Unresolved(n, "slot function not found or no longer calls digest.Crc16")
		}
	}
	return out
}

func xmodemTable() [256]uint16 {
	var t [256]uint16
	for i := 0; i < 256; i++ {
		crc := uint16(i) << 8
		for j := 0; j < 8; j++ {
			if crc&0x8000 != 0 {
				crc = crc<<1 ^ 0x1021
			} else {
				crc <<= 1
			}
		}
		t[i] = crc
	}
	return t
}

// tableLiteral reads a package-level array/slice literal of integer constants.
func tableLiteral(w *core.World, pkg, name string) ([]uint64, token.Pos, bool) {
	p := w.Pkg(pkg)
	if p == nil {
		return nil, token.NoPos, false
	}
	for _, f := range p.Syntax {
		for _, d := range f.Decls {
			gd, ok := d.(*ast.GenDecl)
			if !ok {
				continue
			}
			for _, sp := range gd.Specs {
				vs, ok := sp.(*ast.ValueSpec)
				if !ok {
					continue
				}
				for i, n := range vs.Names {
					if n.Name != name || i >= len(vs.Values) {
						continue
					}
					cl, ok := vs.Values[i].(*ast.CompositeLit)
					if !ok {
						return nil, n.Pos(), false
					}
					var out []uint64
					for _, e := range cl.Elts {
						if _, isKV := e.(*ast.KeyValueExpr); isKV {
							return nil, n.Pos(), false
						}
						tv := p.TypesInfo.Types[e]
						if tv.Value == nil {
							return nil, n.Pos(), false
						}
						u, ok := constant.Uint64Val(constant.ToInt(tv.Value))
						if !ok {
							return nil, n.Pos(), false
						}
						out = append(out, u)
					}
					return out, n.Pos(), true
				}
			}
		}
	}
	return nil, token.NoPos, false
}

func ruleCrc16(w *core.World, r *core.Report) {
	tab, pos, ok := tableLiteral(w, "pkg/digest", "crc16tab")
	if !ok {
		r.Unresolved("digest.crc16tab", "table literal not found")
	} else {
		want := xmodemTable()
		bad := -1
		if len(tab) != 256 {
			bad = len(tab)
		} else {
			for i := range tab {
				if tab[i] != uint64(want[i]) {
					bad = i
					break
				}
			}
		}
		r.Check(bad < 0, "digest.crc16tab", pos, "CRC-16 table differs from XMODEM (poly 0x1021) at index/len %d", bad)
	}
	f := fn(w, r, "pkg/digest.Crc16")
	if f == nil {
		return
	}
	// the register: a loop-carried value that starts at 0 and is what the function returns
	okStep, okLoop, okRet := false, false, false
	why := ""
	var crcPhi *ssa.Phi
	for _, in := range core.OwnInstrs(f) {
		ret, ok := in.(*ssa.Return)
		if !ok || len(ret.Results) != 1 {
			continue
		}
		if ph, isPh := core.RetVal(ret, 0).(*ssa.Phi); isPh && len(ph.Edges) == 2 {
			crcPhi = ph
			okRet = true
		}
	}
	if crcPhi != nil && len(f.Params) == 1 {
		var next ssa.Value
		init := false
		head := crcPhi.Block()
		for i, e := range crcPhi.Edges {
			if head.Dominates(head.Preds[i]) {
				next = e
			} else if k, isC := core.ConstInt(e); isC && k == 0 {
				init = true
			}
		}
		// the update, in bit-level normal form over (register bits 0..15, input byte bits 16..23)
		var idxVals []ssa.Value
		env := &bvEnv{sub: map[ssa.Value]ssa.Value{}, leaf: func(v ssa.Value) (int, int, bool) {
			if v == ssa.Value(crcPhi) {
				return 0, 16, true
			}
			switch x := v.(type) {
			case *ssa.Index:
				if x.X == ssa.Value(f.Params[0]) {
					idxVals = append(idxVals, x.Index)
					return 16, 8, true
				}
			case *ssa.Lookup:
				if x.X == ssa.Value(f.Params[0]) && !x.CommaOk {
					idxVals = append(idxVals, x.Index)
					return 16, 8, true
				}
			}
			return 0, 0, false
		}}
		if next != nil && init {
			got, ok := env.norm(next)
			switch {
			case !ok:
				why = "the update expression is not a shift/xor/mask/table expression of the register and the current byte"
			case got.w != 16 || got.tab == nil || got.tab.Name() != "crc16tab" || got.tabW != 16:
				why = "the update does not xor a full entry of crc16tab into the register"
			default:
				good := true
				for j := 0; j < 16; j++ {
					want := uint64(0)
					if j >= 8 {
						want = 1 << uint(j-8)
					}
					if got.lin[j] != want {
						good = false
					}
				}
				for j := 0; j < 64; j++ {
					want := uint64(0)
					if j < 8 {
						want = 1<<uint(8+j) | 1<<uint(16+j)
					}
					if got.tabIdx.lin[j] != want {
						good = false
					}
				}
				if !good {
					why = "the update is not (crc<<8) ^ tab[((crc>>8) ^ b) & 0xff] bit for bit"
				}
				okStep = good
			}
		} else {
			why = "the register does not start at 0"
		}
		// every byte from index 0: the byte read is buf[i] with i = 0,1,…,len(buf)-1
		okLoop = len(idxVals) > 0
		for _, iv := range idxVals {
			from, bound, ok := indexRange(iv)
			if !ok || from != 0 {
				okLoop = false
				continue
			}
			c, isC := core.Unwrap(bound).(*ssa.Call)
			if !isC || !isBuiltin(c, "len") || c.Call.Args[0] != ssa.Value(f.Params[0]) {
				okLoop = false
			}
		}
	}
	r.Check(okStep && okLoop && okRet, "digest.Crc16/step", f.Pos(), "expected crc=0; for every byte b from index 0: crc = (crc<<8) ^ tab[((crc>>8)^b)&0xff]; return crc (step=%v loop=%v ret=%v %s)", okStep, okLoop, okRet, why)
}

// firstMatchScan recognises `for idx = start; idx < len(key); idx++ { if key[idx] == ch { break } }`
// given the index phi; returns the start value.
func firstMatchScan(ph *ssa.Phi, key ssa.Value, ch int64) (ssa.Value, bool) {
	if len(ph.Edges) != 2 {
		return nil, false
	}
	var start ssa.Value
	var inc *ssa.BinOp
	for _, e := range ph.Edges {
		if b, ok := e.(*ssa.BinOp); ok && b.Op == token.ADD && b.X == ssa.Value(ph) && isConstInt(1)(b.Y) {
			inc = b
		} else {
			start = e
		}
	}
	if inc == nil || start == nil {
		return nil, false
	}
	head := ph.Block()
	if len(head.Instrs) == 0 {
		return nil, false
	}
	iff, ok := head.Instrs[len(head.Instrs)-1].(*ssa.If)
	if !ok {
		return nil, false
	}
	cmp, ok := core.AsCmp(iff.Cond, true)
	if !ok || cmp.Op != token.LSS || cmp.X != ssa.Value(ph) || !isLenOf(cmp.Y, key) {
		return nil, false
	}
	body, exit := head.Succs[0], head.Succs[1]
	if len(body.Instrs) == 0 {
		return nil, false
	}
	bif, ok := body.Instrs[len(body.Instrs)-1].(*ssa.If)
	if !ok {
		return nil, false
	}
	bc, ok := core.AsCmp(bif.Cond, true)
	if !ok || bc.Op != token.EQL || !isConstInt(ch)(bc.Y) {
		return nil, false
	}
	lk, ok := core.Unwrap(bc.X).(*ssa.Index)
	if !ok || lk.X != key || lk.Index != ssa.Value(ph) {
		return nil, false
	}
	// match -> exit (break); no match -> increment -> head
	if body.Succs[0] != exit {
		return nil, false
	}
	nx := body.Succs[1]
	if inc.Block() != nx || len(nx.Succs) != 1 || nx.Succs[0] != head {
		return nil, false
	}
	// nothing else in the loop
	for _, b := range []*ssa.BasicBlock{head, body, nx} {
		for _, in := range b.Instrs {
			switch in.(type) {
			case *ssa.Phi, *ssa.BinOp, *ssa.Index, *ssa.If, *ssa.Jump, *ssa.Call, *ssa.Convert:
				if c, ok := in.(*ssa.Call); ok {
					if bi, ok := c.Call.Value.(*ssa.Builtin); !ok || bi.Name() != "len" {
						return nil, false
					}
				}
			default:
				return nil, false
			}
		}
	}
	return start, true
}

func isLenOf(v ssa.Value, key ssa.Value) bool {
	c, ok := v.(*ssa.Call)
	if !ok {
		return false
	}
	b, ok := c.Call.Value.(*ssa.Builtin)
	return ok && b.Name() == "len" && len(c.Call.Args) == 1 && c.Call.Args[0] == key
}

// ruleSlotFunction checks one slot function and returns its summary.
func ruleSlotFunction(w *core.World, r *core.Report, f *ssa.Function) string {
	name := core.FuncName(f)
	if len(f.Params) != 1 {
		r.Rule("R11.3", "", 0)
		r.Undecided(name+"/signature", f.Pos(), "slot function does not take exactly the key")
		return name + ":?"
	}
	key := ssa.Value(f.Params[0])
	// R11.3 masks
	r.Rule("R11.3", "every return of a slot function is Crc16(x) & 16383", 2)
	type retInfo struct {
		ret *ssa.Return
		arg ssa.Value
	}
	var rets []retInfo
	maskOK := true
	for _, in := range core.Instrs(f) {
		ret, ok := in.(*ssa.Return)
		if !ok {
			continue
		}
		if len(ret.Results) != 1 {
			maskOK = false
			continue
		}
		b, ok := core.RetVal(ret, 0).(*ssa.BinOp)
		good := false
		if ok {
			k, isC := core.ConstInt(b.Y)
			if (b.Op == token.AND && isC && k == slotMask) || (b.Op == token.REM && isC && k == slotMask+1) {
				if c, ok := b.X.(*ssa.Call); ok && core.ResolveCall(c).Name == "pkg/digest.Crc16" && len(c.Call.Args) == 1 {
					good = true
					rets = append(rets, retInfo{ret, c.Call.Args[0]})
				}
			}
		}
		if !good {
			maskOK = false
			r.Fail(name+"/return-mask", ret.Pos(), "a return is not Crc16(x) & 16383")
		}
	}
	if maskOK {
		r.Check(len(rets) > 0, name+"/return-mask", f.Pos(), "no return found")
	}

	// R11.4
	r.Rule("R11.4", "hash-tag extraction: first '{', first following '}', non-empty, else whole key (all return paths)", 2)
	cons := name + "/tag-extraction"
	// find the scan phis
	var sPhi, ePhi *ssa.Phi
	for _, in := range core.Instrs(f) {
		ph, ok := in.(*ssa.Phi)
		if !ok {
			continue
		}
		if st, ok := firstMatchScan(ph, key, '{'); ok && isConstInt(0)(st) {
			sPhi = ph
		}
	}
	if sPhi != nil {
		for _, in := range core.Instrs(f) {
			ph, ok := in.(*ssa.Phi)
			if !ok {
				continue
			}
			if st, ok := firstMatchScan(ph, key, '}'); ok && isPlusOne(st, sPhi) {
				ePhi = ph
			}
		}
	}
	if sPhi == nil || ePhi == nil {
		// the part to hash is chosen by a helper: hash(sel(key))
		if len(rets) > 0 {
			all := true
			for _, ri := range rets {
				c, isC := core.Unwrap(ri.arg).(*ssa.Call)
				if !isC || c.Call.StaticCallee() == nil || len(c.Call.Args) != 1 || c.Call.Args[0] != key {
					all = false
					break
				}
				if why := tagSelectorIdiom(c.Call.StaticCallee()); why != "" {
					all = false
					break
				}
			}
			if all {
				r.OK(cons, f.Pos(), "tag selected by a helper of the returning-scan form")
				return "first{first}nonempty&16383"
			}
		}
		if sum, done := slotFunctionIndexIdiom(w, r, f, key, cons, func(ret *ssa.Return) ssa.Value {
			for _, ri := range rets {
				if ri.ret == ret {
					return ri.arg
				}
			}
			return nil
		}); done {
			if sum == "first{first}nonempty&16383" {
				return sum
			}
			return name + ":" + sum
		}
		// the two scans are calls of one search helper (r7_n2.go)
		if sum, done := slotFunctionScanHelperIdiom(r, f, key, cons, func(ret *ssa.Return) ssa.Value {
			for _, ri := range rets {
				if ri.ret == ret {
					return ri.arg
				}
			}
			return nil
		}); done {
			if sum == "first{first}nonempty&16383" {
				return sum
			}
			return name + ":" + sum
		}
		r.Undecided(cons, f.Pos(), "the function does not locate the tag by a first-match scan for '{' from index 0 followed by a first-match scan for '}' from the next index (recognised idioms: for i = start; i < len(key); i++ { if key[i] == c { break } }, or s := strings.IndexByte(key, '{') / e := strings.IndexByte(key[s+1:], '}'), or s := h(key, 0, '{') / e := h(key, s+1, '}') with h(s, from, c) a helper that is exactly such a first-match loop and returns its index); a scan that continues after the first '{' or searches from the end disagrees with HASH_SLOT for keys with several braces")
		return name + ":unrecognised"
	}
	isS := func(v ssa.Value) bool { return v == ssa.Value(sPhi) }
	isE := func(v ssa.Value) bool { return v == ssa.Value(ePhi) }
	isLen := func(v ssa.Value) bool { return isLenOf(v, key) }
	isS1 := func(v ssa.Value) bool { return isPlusOne(v, sPhi) }
	bad := ""
	var badPos token.Pos
	nWhole, nSlice := 0, 0
	okEnum := core.EnumPaths(f.Blocks[0], 0, 100000, func(p *core.Path) {
		ret, ok := p.End.(*ssa.Return)
		if !ok || bad != "" {
			return
		}
		var arg ssa.Value
		for _, ri := range rets {
			if ri.ret == ret {
				arg = ri.arg
			}
		}
		if arg == nil {
			return
		}
		sMiss := p.HoldsRaw(token.EQL, isS, isLen)
		eMiss := p.HoldsRaw(token.EQL, isE, isLen)
		empty := p.HoldsRaw(token.EQL, isE, isS1)
		sHit := p.HoldsRaw(token.NEQ, isS, isLen)
		eHit := p.HoldsRaw(token.NEQ, isE, isLen)
		nonEmpty := p.HoldsRaw(token.NEQ, isE, isS1)
		if arg == key {
			nWhole++
			if !(sMiss || eMiss || empty) {
				bad, badPos = "the whole key is hashed on a path where a non-empty tag was found", ret.Pos()
			}
			return
		}
		sl, ok := arg.(*ssa.Slice)
		if !ok || sl.X != key || !isS1(sl.Low) || !isE(sl.High) {
			bad, badPos = "the hashed substring is not key[s+1:e]", ret.Pos()
			return
		}
		nSlice++
		if !(sHit && eHit && nonEmpty) {
			bad, badPos = "the tag is hashed on a path that did not establish: '{' found, '}' found after it, tag non-empty", ret.Pos()
		}
	})
	if !okEnum {
		r.Undecided(cons, f.Pos(), "too many paths")
		return name + ":?"
	}
	if bad != "" {
		r.Fail(cons, badPos, "%s", bad)
		return name + ":bad"
	}
	r.Check(nWhole > 0 && nSlice > 0, cons, f.Pos(), "expected both whole-key and tag returns (whole=%d tag=%d)", nWhole, nSlice)
	return "first{first}nonempty&16383"
}

func isPlusOne(v ssa.Value, ph *ssa.Phi) bool {
	b, ok := v.(*ssa.BinOp)
	return ok && b.Op == token.ADD && b.X == ssa.Value(ph) && isConstInt(1)(b.Y)
}

var _ = strings.ToLower

// ---------------------------------------------------------------- the library-search idiom

// isIndexOf matches strings.IndexByte(x, c) / strings.Index(x, "c") /
// strings.IndexRune(x, c) / bytes.IndexByte(x, c) for an ASCII constant c and
// returns x.
func isIndexOf(v ssa.Value, ch int64) (ssa.Value, bool) {
	c, ok := v.(*ssa.Call)
	if !ok || len(c.Call.Args) != 2 {
		return nil, false
	}
	switch core.ResolveCall(c).Name {
	case "strings.IndexByte", "bytes.IndexByte", "strings.IndexRune":
		if k, ok := core.ConstInt(c.Call.Args[1]); ok && k == ch {
			return c.Call.Args[0], true
		}
	case "strings.Index":
		if str, ok := core.ConstString(c.Call.Args[1]); ok && str == string(rune(ch)) {
			return c.Call.Args[0], true
		}
	}
	return nil, false
}

// rangeOn derives the interval a path's branch outcomes leave for an integer
// value compared with constants only (a library search result is >= -1).
func rangeOn(p *core.Path, v ssa.Value) (lo, hi int64) {
	lo, hi = -1, 1<<62
	for _, fct := range p.Conds {
		c, ok := core.FactCmp(fct)
		if !ok {
			continue
		}
		op, x, y := c.Op, c.X, c.Y
		if y == v {
			x, y = y, x
			switch op {
			case token.LSS:
				op = token.GTR
			case token.LEQ:
				op = token.GEQ
			case token.GTR:
				op = token.LSS
			case token.GEQ:
				op = token.LEQ
			}
		}
		if x != v {
			continue
		}
		k, ok := core.ConstInt(y)
		if !ok {
			continue
		}
		switch op {
		case token.LSS:
			if k-1 < hi {
				hi = k - 1
			}
		case token.LEQ:
			if k < hi {
				hi = k
			}
		case token.GTR:
			if k+1 > lo {
				lo = k + 1
			}
		case token.GEQ:
			if k > lo {
				lo = k
			}
		case token.EQL:
			if k > lo {
				lo = k
			}
			if k < hi {
				hi = k
			}
		case token.NEQ:
			if k == lo {
				lo++
			}
			if k == hi {
				hi--
			}
		}
	}
	return
}

// slotFunctionIndexIdiom decides R11.4 for a slot function written with
// library searches: s = Index(key,'{'), e = Index(key[s+1:],'}') (e relative
// to s+1), tag = key[s+1 : s+1+e].
func slotFunctionIndexIdiom(w *core.World, r *core.Report, f *ssa.Function, key ssa.Value, cons string, argOf func(*ssa.Return) ssa.Value) (string, bool) {
	// the key itself, or the parameter of a helper (expanded at its only call site) that is handed the key
	isKey := func(v ssa.Value) bool { return v == key || core.Unwrap(v) == key }
	var sCall, eCall ssa.Value
	for _, in := range core.Instrs(f) {
		v, ok := in.(ssa.Value)
		if !ok {
			continue
		}
		if x, ok := isIndexOf(v, '{'); ok && isKey(x) {
			sCall = v
		}
	}
	if sCall == nil {
		return "", false
	}
	isS1 := func(v ssa.Value) bool {
		b, ok := v.(*ssa.BinOp)
		return ok && b.Op == token.ADD && ((b.X == sCall && isConstInt(1)(b.Y)) || (b.Y == sCall && isConstInt(1)(b.X)))
	}
	for _, in := range core.Instrs(f) {
		v, ok := in.(ssa.Value)
		if !ok {
			continue
		}
		if x, ok := isIndexOf(v, '}'); ok {
			if sl, ok := x.(*ssa.Slice); ok && isKey(sl.X) && sl.Low != nil && isS1(sl.Low) && sl.High == nil {
				eCall = v
			}
		}
	}
	if eCall == nil {
		return "", false
	}
	isHigh := func(v ssa.Value) bool { // s+1+e in any association
		b, ok := v.(*ssa.BinOp)
		if !ok || b.Op != token.ADD {
			return false
		}
		if (isS1(b.X) && b.Y == eCall) || (isS1(b.Y) && b.X == eCall) {
			return true
		}
		for _, pr := range [][2]ssa.Value{{b.X, b.Y}, {b.Y, b.X}} {
			if isConstInt(1)(pr[1]) {
				if in, ok := pr[0].(*ssa.BinOp); ok && in.Op == token.ADD && ((in.X == sCall && in.Y == eCall) || (in.Y == sCall && in.X == eCall)) {
					return true
				}
			}
			if pr[0] == sCall {
				if in, ok := pr[1].(*ssa.BinOp); ok && in.Op == token.ADD && ((in.X == eCall && isConstInt(1)(in.Y)) || (in.Y == eCall && isConstInt(1)(in.X))) {
					return true
				}
			}
		}
		return false
	}
	bad := ""
	var badPos token.Pos
	nWhole, nSlice := 0, 0
	okEnum := core.EnumPaths(f.Blocks[0], 0, 100000, func(p *core.Path) {
		ret, ok := p.End.(*ssa.Return)
		if !ok || bad != "" {
			return
		}
		arg := argOf(ret)
		if arg == nil {
			return
		}
		arg = p.Resolve(arg)
		sLo, sHi := rangeOn(p, sCall)
		eLo, eHi := rangeOn(p, eCall)
		eEvaluated := false
		for _, in := range p.Instrs {
			if v, ok := in.(ssa.Value); ok && v == eCall {
				eEvaluated = true
			}
		}
		if isKey(arg) {
			nWhole++
			sMiss := sHi < 0
			_ = eLo
			noTag := eEvaluated && eHi <= 0 // e == -1: no '}' after it; e == 0: nothing between the braces
			if !(sMiss || noTag) {
				bad, badPos = "the whole key is hashed on a path where a non-empty tag was found (or the path did not establish that none was)", ret.Pos()
			}
			return
		}
		sl, ok := arg.(*ssa.Slice)
		good := ok && isKey(sl.X) && sl.Low != nil && isS1(sl.Low) && sl.High != nil && isHigh(sl.High)
		if ok && !good {
			// the same substring cut in two steps: rest := key[s+1:], tag := rest[:e]
			if inner, isSl := sl.X.(*ssa.Slice); isSl && isKey(inner.X) && inner.Low != nil && isS1(inner.Low) && inner.High == nil &&
				(sl.Low == nil || isConstInt(0)(sl.Low)) && sl.High == eCall {
				good = true
			}
		}
		if !good {
			bad, badPos = "the hashed substring is not key[s+1 : s+1+e]", ret.Pos()
			return
		}
		nSlice++
		if !(sLo >= 0 && eEvaluated && eLo >= 1) {
			bad, badPos = "the tag is hashed on a path that did not establish: '{' found, '}' found after it, tag non-empty (at least one byte between the braces)", ret.Pos()
		}
	})
	if !okEnum {
		r.Undecided(cons, f.Pos(), "too many paths")
		return "?", true
	}
	if bad != "" {
		r.Fail(cons, badPos, "%s", bad)
		return "bad", true
	}
	r.Check(nWhole > 0 && nSlice > 0, cons, f.Pos(), "expected both whole-key and tag returns (whole=%d tag=%d)", nWhole, nSlice)
	return "first{first}nonempty&16383", true
}


// returningScan recognises
//
//	for i := start; i < len(key); i++ { if key[i] != ch { continue }; …always returns… }
//
// (or the `== ch { …returns… }` spelling) given the index phi: because the
// function leaves at the first match, inside the match region i is the first
// index >= start holding ch. Returns the start value and the match region's
// entry block.
func returningScan(ph *ssa.Phi, key ssa.Value, ch int64) (ssa.Value, *ssa.BasicBlock, bool) {
	if len(ph.Edges) != 2 {
		return nil, nil, false
	}
	var start ssa.Value
	var inc *ssa.BinOp
	for _, e := range ph.Edges {
		if b, ok := e.(*ssa.BinOp); ok && b.Op == token.ADD && b.X == ssa.Value(ph) && isConstInt(1)(b.Y) {
			inc = b
		} else {
			start = e
		}
	}
	if inc == nil || start == nil {
		return nil, nil, false
	}
	head := ph.Block()
	iff, ok := head.Instrs[len(head.Instrs)-1].(*ssa.If)
	if !ok {
		return nil, nil, false
	}
	cmp, ok := core.AsCmp(iff.Cond, true)
	if !ok || cmp.Op != token.LSS || cmp.X != ssa.Value(ph) || !isLenOf(cmp.Y, key) {
		return nil, nil, false
	}
	body := head.Succs[0]
	bif, ok := body.Instrs[len(body.Instrs)-1].(*ssa.If)
	if !ok {
		return nil, nil, false
	}
	bc, ok := core.AsCmp(bif.Cond, true)
	if !ok || (bc.Op != token.EQL && bc.Op != token.NEQ) || !isConstInt(ch)(bc.Y) {
		return nil, nil, false
	}
	lk, ok := core.Unwrap(bc.X).(*ssa.Index)
	if !ok || lk.X != key || lk.Index != ssa.Value(ph) {
		return nil, nil, false
	}
	match, miss := body.Succs[0], body.Succs[1]
	if bc.Op == token.NEQ {
		match, miss = miss, match
	}
	// a miss goes on with the next index (possibly through an empty `continue` block)
	for hops := 0; miss != inc.Block() && hops < 3; hops++ {
		if len(miss.Instrs) != 1 || len(miss.Succs) != 1 {
			return nil, nil, false
		}
		miss = miss.Succs[0]
	}
	if miss != inc.Block() || len(miss.Succs) != 1 || miss.Succs[0] != head {
		return nil, nil, false
	}
	// a match never comes back to the loop
	if blockReaches(match, head) {
		return nil, nil, false
	}
	// nothing but the test in the loop proper
	for _, b := range []*ssa.BasicBlock{head, body} {
		for _, in := range b.Instrs {
			switch x := in.(type) {
			case *ssa.Phi, *ssa.BinOp, *ssa.Index, *ssa.If, *ssa.Jump, *ssa.Convert:
			case *ssa.Call:
				if bi, ok := x.Call.Value.(*ssa.Builtin); !ok || bi.Name() != "len" {
					return nil, nil, false
				}
			default:
				return nil, nil, false
			}
		}
	}
	return start, match, true
}

// tagSelectorIdiom: g(key) returns the part of the key that HASH_SLOT hashes,
// written as two nested returning scans: the first '{' from index 0, inside
// its match region the first '}' from the next index, inside that region the
// slice key[s+1:e] exactly when e != s+1; the whole key everywhere else.
// Returns "" when g has that form, else the reason.
func tagSelectorIdiom(g *ssa.Function) string {
	if len(g.Params) != 1 || len(g.Blocks) == 0 {
		return "not a function of the key alone"
	}
	key := ssa.Value(g.Params[0])
	var sPhi, ePhi *ssa.Phi
	var m1, m2 *ssa.BasicBlock
	for _, in := range core.OwnInstrs(g) {
		if ph, ok := in.(*ssa.Phi); ok {
			if st, m, ok := returningScan(ph, key, '{'); ok && isConstInt(0)(st) {
				sPhi, m1 = ph, m
			}
		}
	}
	if sPhi == nil {
		return "no scan for the first '{' from index 0 that returns at the match"
	}
	for _, in := range core.OwnInstrs(g) {
		if ph, ok := in.(*ssa.Phi); ok {
			if st, m, ok := returningScan(ph, key, '}'); ok && isPlusOne(st, sPhi) && m1.Dominates(ph.Block()) {
				ePhi, m2 = ph, m
			}
		}
	}
	if ePhi == nil {
		return "no scan for the first '}' behind the '{' that returns at the match"
	}
	bad := ""
	nSlice, nWhole := 0, 0
	okEnum := core.EnumPathsN(g.Blocks[0], 0, 100000, 2, func(p *core.Path) {
		ret, ok := p.End.(*ssa.Return)
		if !ok || bad != "" || len(ret.Results) != 1 {
			return
		}
		inM2 := false
		for _, b := range p.Blocks {
			if b == m2 {
				inM2 = true
			}
		}
		rv := p.Resolve(ret.Results[0])
		isE := func(v ssa.Value) bool { return v == ssa.Value(ePhi) }
		isS1 := func(v ssa.Value) bool { return isPlusOne(v, sPhi) }
		nonEmpty := p.HoldsRaw(token.NEQ, isE, isS1)
		empty := p.HoldsRaw(token.EQL, isE, isS1)
		if rv == key {
			nWhole++
			if inM2 && !empty {
				bad = "the whole key is returned although a non-empty tag was found"
			}
			return
		}
		sl, ok := rv.(*ssa.Slice)
		if !ok || sl.X != key || !isS1(sl.Low) || sl.High != ssa.Value(ePhi) {
			bad = "a return is neither the key nor key[s+1:e]"
			return
		}
		nSlice++
		if !inM2 || !nonEmpty {
			bad = "the tag is returned on a path that did not establish: '}' found behind the first '{', tag non-empty"
		}
	})
	if !okEnum {
		return "too many paths"
	}
	if bad != "" {
		return bad
	}
	if nSlice == 0 || nWhole == 0 {
		return "expected both whole-key and tag returns"
	}
	return ""
}
