package rules

import (
	"go/types"
	"go/constant"
	"go/token"
	"strings"

	"gunyucheck/core"

	"golang.org/x/tools/go/ssa"
)

func init() {
	All["C06"] = c06
	core.Explanations["C06"] = "Decides necessary structural conditions of 'each source (re)connection continues the stream gap-free or takes a snapshot', by enumerating every successful path of the decision procedure syncMeta with its flags pruned: " +
		"(R06.1) SendPSync formats offset+1 for a known offset and the raw value otherwise, returns sent-1 on CONTINUE and the parsed offset on FULLRESYNC; (R06.2) a nil snapshot waiter (partial resync) is returned only under a CONTINUE reply, any other reply is an error, and sendPsync reports 'not full' only for a nil waiter; " +
		"(R06.3) PSYNC is asked from the cache's position only when the target's position is a valid cache offset (or a valid cached snapshot exists and the target has no position), from the target's position otherwise — and then the cache is cleared (DelRunId before SetRunId) on that path — or from the initial point; a full resync always clears the cache first; " +
		"(R06.4) on full-sync paths the reader start is reply offset − announced snapshot size and the writer offset the reply offset, the snapshot size returned is the one the source announced; on partial paths the reader start is the target's stored position (or cached snapshot start when replaying the cached snapshot, only when the source granted the continuation) and the writer offset the cache's edge or the target's position; " +
		"(R06.6) cache and bookkeeping are re-keyed with the same id, which on CONTINUE is the source's current id. (R06.7) the cache is adopted under one of the source's ids only when it holds data written under that id (the disk store switches to an id only when that id's directory exists; the memory channel answers only for its own id). Not decided: agreement with the source's own admission rules (needs a model of Redis)."
}

const syncMetaFn = "(*syncer.RedisInput).syncMeta"

func c06(w *core.World, r *core.Report) {
	r.Rule("R06.1", "PSYNC offset convention: +1 when known, sent-1 on CONTINUE, parsed value on FULLRESYNC", 1)
	r.Rule("R06.2", "partial resync relied on only when granted", 2)
	rulePsyncWire(w, r)

	r.Rule("R06.3", "PSYNC argument choice and cache clearing on every successful path of syncMeta", 3)
	r.Rule("R06.4", "reader start / writer offset / snapshot size definitions on every successful path of syncMeta", 2)
	r.Rule("R06.6", "one id for cache and bookkeeping; CONTINUE keeps the source's current id", 2)
	r.Rule("R06.10", "a full resynchronisation does not carry the target's old position over to the new replication id", 2)
	r.Rule("R06.14", "a granted continuation keeps the position the target holds: the output is told to drop it only on a full resynchronisation", 1)
	ruleSyncMetaPaths(w, r)

	r.Rule("R06.5", "the values syncMeta returns reach the writer and the reader unchanged", 2)
	ruleMetaPlumbing(w, r)

	r.Rule("R06.7", "a cache is adopted under one of the source's ids only when it holds data written under that id", 2)
	ruleCacheAdoption(w, r)

	r.Rule("R06.12", "the start-up maintenance keeps the run id the checkpoint is stored under: the source, not the tool, decides whether a position of its previous history is continued", 2)
	ruleStartupKeepsCheckpointId(w, r)
	r.Rule("R06.13", "a full resynchronisation under a new id leaves no record of the old id that could be carried over: the old id's records are removed from every database before the 'none yet' marker is written", 1)
	ruleDropRemovesEveryRecord(w, r)
	r.Rule("R06.11", "the target's position is handed to the input under the id (and with the offset) it is stored under", 1)
	ruleStartPointKeepsItsId(w, r)
	r.Rule("R06.8", "the disk cache re-reads its directory whenever a run id is (re)confirmed", 2)
	ruleCacheRefreshed(w, r)

	r.Rule("R06.9", "the in-memory resume position gets a run id only together with the offset that belongs to it", 1)
	ruleInMemResumePoint(w, r)

	r.Rule("R08.2", "the cache the decision procedure consults reports only completed snapshots after a restart (scan conditions, shared with C08)", 3)
	ruleScan(w, r)

	r.Rule("R06.12", "", 0)
	ruleHolderLookupFailureSurfaces(w, r)
	r.Rule("R02.5", "the position offered to the source is the greatest stored offset: a record chosen by modification time re-requests bytes that were already applied (shared with C02)", 1)
	ruleNewestCheckpoint(w, r)
	r.Rule("R06.15", "an optional capability that is asserted on an interface-typed field (the output's DropStartPoint in syncMeta) is not hidden by a wrapper stored in the field: every concrete type that can be stored there implements the asserted interface or holds nothing that does", 1)
	ruleOptionalCapabilityVisible(w, r)
}

func rulePsyncWire(w *core.World, r *core.Report) {
	f := fn(w, r, "(*pkg/redis.StandaloneRedis).SendPSync")
	if f != nil {
		off := ssa.Value(f.Params[2])
		// the value formatted and sent, per path: offset+1 under offset >= 0, the raw value otherwise
		okSent := true
		nPlus, nRaw := 0, 0
		sentOn := func(p *core.Path) ssa.Value {
			var sent ssa.Value
			for _, s := range pathSites(p) {
				if s.Name == "strconv.FormatInt" && len(s.Args()) == 2 {
					sent = p.Resolve(s.Args()[0])
				}
			}
			if sent == nil {
				return nil
			}
			nonNeg, neg := false, false
			for _, fct := range p.Conds {
				c, ok := core.FactCmp(fct)
				if !ok || p.Resolve(c.X) != off || !isConstInt(0)(c.Y) {
					continue
				}
				switch c.Op {
				case token.GEQ:
					nonNeg = true
				case token.LSS:
					neg = true
				}
			}
			if b, isB := sent.(*ssa.BinOp); isB && b.Op == token.ADD && p.Resolve(b.X) == off && isConstInt(1)(b.Y) {
				if !nonNeg {
					okSent = false
				}
				nPlus++
			} else if sent == off {
				if !neg {
					okSent = false
				}
				nRaw++
			} else {
				okSent = false
			}
			return sent
		}
		bad := ""
		var badPos token.Pos
		nCont, nFull := 0, 0
		isReplyWord := func(word string) func(*core.Path) bool {
			return func(p *core.Path) bool {
				return p.Holds(token.EQL, isResultOf("strings.ToLower", -1), isConstStr(word))
			}
		}
		core.EnumPaths(f.Blocks[0], 0, 10000, func(p *core.Path) {
			ret, ok := p.End.(*ssa.Return)
			if !ok || len(ret.Results) != 4 || !pathNil(p, ret.Results[3]) {
				return
			}
			waiterNil := pathNil(p, ret.Results[2])
			ro := p.Resolve(ret.Results[1])
			sent := sentOn(p)
			if sent == nil {
				bad, badPos = "a result is reported on a path that sent no PSYNC", ret.Pos()
				return
			}
			if waiterNil {
				nCont++
				if !isReplyWord("continue")(p) {
					bad, badPos = "a partial resynchronisation is reported (nil snapshot waiter, nil error) on a path where the reply was not CONTINUE", ret.Pos()
				}
				b, ok := ro.(*ssa.BinOp)
				if !ok || b.Op != token.SUB || !isConstInt(1)(b.Y) || p.Resolve(b.X) != sent {
					bad, badPos = "on CONTINUE the reported offset must be the offset sent minus 1 (found "+ro.String()+")", ret.Pos()
				}
			} else {
				nFull++
				if !isReplyWord("fullresync")(p) {
					bad, badPos = "a full resynchronisation is reported on a path where the reply was not FULLRESYNC", ret.Pos()
				}
				if !isResultOf("strconv.ParseInt", 0)(ro) {
					bad, badPos = "on FULLRESYNC the reported offset must be the one parsed from the reply", ret.Pos()
				}
			}
		})
		r.Rule("R06.1", "", 1)
		okSent = okSent && nPlus > 0 && nRaw > 0
		r.Check(okSent && bad == "" && nCont > 0 && nFull > 0, "SendPSync/offset-convention", badPos, "%s (sent offset+1 under offset>=0: %v)", bad, okSent)
		r.Rule("R06.2", "", 2)
		r.Check(bad == "" && nCont > 0, "SendPSync/continue-only-when-granted", badPos, "%s", bad)
	}
	if g := fn(w, r, "(*syncer.RedisInput).sendPsync"); g != nil {
		bad := ""
		n := 0
		isWaiter := isResultOf("(*pkg/redis.StandaloneRedis).SendPSync", 2)
		core.EnumPathsN(g.Blocks[0], 0, 10000, core.Unroll, func(p *core.Path) {
			ret, ok := p.End.(*ssa.Return)
			if !ok || len(ret.Results) != 4 || !pathNil(p, ret.Results[3]) {
				return
			}
			n++
			full, known := p.Eval(ret.Results[1])
			if !known {
				bad = "full-sync flag is not constant per path"
				return
			}
			nilW := p.Holds(token.EQL, isWaiter, core.IsNilConst)
			if full == nilW {
				bad = "sendPsync must report 'partial' exactly when SendPSync returned no snapshot waiter"
			}
		})
		r.Rule("R06.2", "", 2)
		r.Check(bad == "" && n >= 2, "sendPsync/full-flag", g.Pos(), "%s", bad)
	}
}

// allocReceiving finds the local variable that is assigned result #idx of a
// call matching is (a variable is identified by what is stored into it, not
// by its name).
func allocReceiving(f *ssa.Function, is func(core.Site) bool, idx int) *ssa.Alloc {
	var found *ssa.Alloc
	// f itself (with the helpers read as part of it) and its closures: a local of f that a closure assigns
	// is the same variable (the closure's captured variable is bound to it)
	instrs := core.Instrs(f)
	for _, g := range core.DeepFuncs(f)[1:] {
		instrs = append(instrs, core.OwnInstrs(g)...)
	}
	for _, in := range instrs {
		st, ok := in.(*ssa.Store)
		if !ok {
			continue
		}
		a, ok := st.Addr.(*ssa.Alloc)
		if !ok {
			if fv, isFV := st.Addr.(*ssa.FreeVar); isFV {
				a = core.Cell(fv)
			}
			if a == nil || a.Parent() != f {
				continue
			}
		}
		e, ok := core.Unwrap(st.Val).(*ssa.Extract)
		if !ok || e.Index != idx {
			continue
		}
		c, ok := e.Tuple.(*ssa.Call)
		if !ok || !is(core.ResolveCall(c)) {
			continue
		}
		if found != nil && found != a {
			return nil // ambiguous
		}
		found = a
	}
	return found
}

func ruleSyncMetaPaths(w *core.World, r *core.Report) {
	f := fn(w, r, syncMetaFn)
	if f == nil {
		return
	}
	// the four positions syncMeta juggles, by role: what the target reported, what the cache reported,
	// the "initial" point (the one Initialize() is called on), and the source's PSYNC answer
	out := allocReceiving(f, func(s core.Site) bool { return s.Name == "(*syncer.RedisInput).getOutputStartPoint" }, 0)
	loc := allocReceiving(f, func(s core.Site) bool {
		return s.Common().IsInvoke() && s.Method == "StartPoint" && strings.HasSuffix(core.TypeName(s.Common().Value.Type()), "syncer.Channel")
	}, 0)
	sOff := allocReceiving(f, func(s core.Site) bool { return s.Name == "(*syncer.RedisInput).pSync" }, 0)
	var syn *ssa.Alloc
	for _, s := range core.SitesNamed(f, false, "(*syncer.StartPoint).Initialize") {
		if a, ok := s.Recv().(*ssa.Alloc); ok {
			syn = a
		}
	}
	if loc == nil || out == nil || syn == nil || sOff == nil {
		r.Unresolved("syncMeta/locals", "locSp/outSp/synSp/sOffset not found")
		return
	}
	var curP *core.Path // the path being judged: a copy of a start point handed to a helper is followed back
	fieldLoad := func(a *ssa.Alloc, field string) func(ssa.Value) bool {
		return func(v ssa.Value) bool {
			v = core.Unwrap(v)
			if fv, isF := v.(*ssa.Field); isF && curP != nil && core.FieldName(fv) == field {
				// a field of a by-value copy of the whole variable
				if ld, isLd := core.Unwrap(curP.Resolve(fv.X)).(*ssa.UnOp); isLd && ld.Op == token.MUL && ld.X == ssa.Value(a) {
					return true
				}
			}
			ld, ok := v.(*ssa.UnOp)
			if !ok || ld.Op != token.MUL {
				return false
			}
			fa, ok := ld.X.(*ssa.FieldAddr)
			if !ok || core.FieldName(fa) != field {
				return false
			}
			if fa.X == ssa.Value(a) {
				return true
			}
			// a by-value parameter spilled to a local of the helper: the local holds a copy of the variable
			if b, isA := fa.X.(*ssa.Alloc); isA && curP != nil {
				sts := core.CellStores(b)
				if len(sts) == 1 {
					if src, isLd := core.Unwrap(curP.Resolve(sts[0].Val)).(*ssa.UnOp); isLd && src.Op == token.MUL && src.X == ssa.Value(a) {
						return true
					}
				}
			}
			return false
		}
	}
	type verdict struct {
		bad string
		pos token.Pos
		n   int
	}
	v := map[string]*verdict{"psync-argument": {}, "cache-cleared": {}, "full-definitions": {}, "partial-definitions": {}, "one-id": {}, "continue-id": {}, "position-dropped": {}, "position-kept": {}}
	dropMethods := map[string]bool{}
	fail := func(k, msg string, pos token.Pos) {
		if v[k].bad == "" {
			v[k].bad, v[k].pos = msg, pos
		}
	}
	okEnum := core.EnumPaths(f.Blocks[0], 0, 400000, func(p *core.Path) {
		ret, ok := p.End.(*ssa.Return)
		if !ok || len(ret.Results) != 5 || !pathNil(p, ret.Results[4]) {
			return
		}
		curP = p
		var ps core.Site
		sites := pathSites(p)
		for _, s := range sites {
			if s.Name == "(*syncer.RedisInput).pSync" {
				ps = s
			}
		}
		if ps.Instr == nil {
			fail("psync-argument", "a successful path of syncMeta sends no PSYNC", ret.Pos())
			return
		}
		full, known := p.Eval(extractOf(ps.Value(), 1))
		if !known {
			fail("full-definitions", "the full-sync flag is not decided on a successful path", ret.Pos())
			return
		}
		// ---- which start point was offered to the source
		src := ""
		var copied ssa.Instruction // the read that copied the start point for a helper that sends the PSYNC
		if c, ok := core.Unwrap(p.Resolve(ps.Args()[1])).(*ssa.Call); ok && strings.HasSuffix(core.ResolveCall(c).Name, "StartPoint).ToOffset") {
			point, cp := startPointHandedOver(p, c.Call.Args[0], ps.Instr, loc, out, syn)
			copied = cp
			switch point {
			case loc:
				src = "cache"
			case out:
				src = "target"
			case syn:
				src = "initial"
			}
		}
		v["psync-argument"].n++
		idx := func(method string) int {
			for i, s := range sites {
				if s.Common().IsInvoke() && s.Method == method && strings.HasSuffix(core.TypeName(s.Common().Value.Type()), "syncer.Channel") {
					return i
				}
			}
			return -1
		}
		validOff := pathAssumed(p, func(x ssa.Value) bool {
			c, ok := core.Unwrap(x).(*ssa.Call)
			return ok && c.Call.IsInvoke() && c.Call.Method.Name() == "IsValidOffset"
		}, true)
		isRdbLeft := func(x ssa.Value) bool { return isIfaceResult(x, "GetRdb", 0) }
		isRdbSize := func(x ssa.Value) bool { return isIfaceResult(x, "GetRdb", 1) }
		validRdb := p.Holds(token.NEQ, isRdbLeft, isConstInt(-1)) && p.Holds(token.NEQ, isRdbSize, isConstInt(-1))
		switch src {
		case "cache":
			if !validOff && !validRdb {
				fail("psync-argument", "the source is asked to continue from the cache's edge on a path that did not establish that the target's position lies in the cache (or that a complete cached snapshot exists): bytes between the two positions are skipped or repeated", ps.Pos())
			}
		case "target":
			// cache must be cleared before it is re-keyed
			d, s := idx("DelRunId"), idx("SetRunId")
			if d < 0 || s < 0 || d > s {
				fail("psync-argument", "the source is asked to continue from the target's position, which is outside the cache, but the cache is not cleared on this path: cached bytes of another range stay under the id", ps.Pos())
			}
		case "initial":
			init := false
			for _, s := range sites {
				if strings.HasSuffix(s.Name, "StartPoint).Initialize") && s.Common().Args[0] == ssa.Value(syn) {
					if s.Instr.Parent() == ps.Instr.Parent() && core.Dominates(s.Instr, ps.Instr) {
						init = true
					}
					// the PSYNC is sent by a helper that was handed a copy: the copy was taken after the initialisation
					if copied != nil && precedesOnPath(p, s.Instr, copied) {
						init = true
					}
				}
			}
			if !init {
				fail("psync-argument", "PSYNC is sent with a start point that was not initialised", ps.Pos())
			}
		default:
			fail("psync-argument", "PSYNC argument is not derived from the cache's, the target's or the initial start point", ps.Pos())
		}
		// IsValidOffset must be asked about {cache id, target offset}
		for _, s := range sites {
			if s.Common().IsInvoke() && s.Method == "IsValidOffset" {
				a := s.Args()[0]
				okArg := core.DependsOn(a, fieldLoad(out, "Offset")) && core.DependsOn(a, fieldLoad(loc, "RunId"))
				if !okArg {
					fail("psync-argument", "the validity question must be about the target's offset under the cache's id", s.Pos())
				}
			}
		}
		// ---- full resync clears the cache
		if full {
			v["cache-cleared"].n++
			d, s := idx("DelRunId"), idx("SetRunId")
			if d < 0 || s < 0 || d > s {
				fail("cache-cleared", "a full resynchronisation re-keys the cache without clearing it first: the new snapshot would join old log segments", ret.Pos())
			}
		}
		// ---- a full resynchronisation under another id does not inherit the target's old position:
		// before the output is re-keyed, it is told to drop what it holds
		// the request is optional in the interface (a type assertion): for the production output the
		// "does not implement it" outcome is impossible exactly when *RedisOutput has the method
		notProduction := false
		for _, in := range p.Instrs {
			ta, isTA := in.(*ssa.TypeAssert)
			if !isTA || !ta.CommaOk || fieldNameOfLoad(core.Unwrap(ta.X)) != "output" {
				continue
			}
			if pathAssumed(p, func(x ssa.Value) bool {
				e, ok := core.Unwrap(x).(*ssa.Extract)
				return ok && e.Index == 1 && e.Tuple == ssa.Value(ta)
			}, false) {
				if ro := w.Pkg("syncer"); ro != nil {
					if obj := ro.Types.Scope().Lookup("RedisOutput"); obj != nil {
						if it, isI := ta.AssertedType.Underlying().(*types.Interface); isI && types.Implements(types.NewPointer(obj.Type()), it) {
							notProduction = true
						}
					}
				}
			}
		}
		if full && !notProduction {
			v["position-dropped"].n++
			setIdx, dropIdx := -1, -1
			for i, s := range sites {
				if !s.Common().IsInvoke() {
					continue
				}
				if s.Method == "SetRunId" && strings.HasSuffix(core.TypeName(s.Common().Value.Type()), "syncer.Output") {
					if setIdx < 0 {
						setIdx = i
					}
					continue
				}
				// a method of the output reached through a type assertion of the output field
				recv := core.Unwrap(p.Resolve(s.Common().Value))
				if ex, isEx := recv.(*ssa.Extract); isEx {
					recv = ex.Tuple
				}
				if ta, isTA := recv.(*ssa.TypeAssert); isTA && fieldNameOfLoad(core.Unwrap(ta.X)) == "output" && s.Method != "StartPoint" {
					if dropIdx < 0 {
						dropIdx = i
						dropMethods[s.Method] = true
					}
				}
			}
			if setIdx < 0 || dropIdx < 0 || dropIdx > setIdx {
				fail("position-dropped", "on a full resynchronisation the output is re-keyed to the new replication id without first being told to drop the position it holds: re-keying copies the old offset to the new id, and until the snapshot has been replayed a restart asks the source to continue the new history from that foreign offset", ret.Pos())
			}
		}
		// the converse: a granted continuation keeps the position the target holds — whatever happens to the
		// local cache. The 'none yet' marker is moved to the new id like any other position, and a stop before
		// the replay's first checkpoint makes the next start ask for everything again (or, with the marker under
		// the current id, lose the live position outright)
		if !full && !notProduction {
			v["position-kept"].n++
			for _, s := range sites {
				if !s.Common().IsInvoke() || s.Method == "StartPoint" || s.Method == "SetRunId" {
					continue
				}
				recv := core.Unwrap(p.Resolve(s.Common().Value))
				if ex, isEx := recv.(*ssa.Extract); isEx {
					recv = ex.Tuple
				}
				if ta, isTA := recv.(*ssa.TypeAssert); isTA && fieldNameOfLoad(core.Unwrap(ta.X)) == "output" && strings.Contains(s.Method, "Drop") {
					fail("position-kept", "the output is told to drop the position it holds on a path where the source granted a continuation: the live resume position is replaced by the 'none yet' marker although nothing replaces the history it belongs to", s.Pos())
				}
			}
		}
		// ---- final definitions
		last := map[string]ssa.Value{}
		for _, in := range p.Instrs {
			st, ok := in.(*ssa.Store)
			if !ok {
				continue
			}
			// (an assignment made by a closure of syncMeta the path stepped into is an assignment of the same variable)
			switch a := st.Addr.(type) {
			case *ssa.Alloc, *ssa.FreeVar:
				if core.Cell(a) == loc {
					last["loc"] = st.Val
					delete(last, "loc.Offset")
				}
				if core.Cell(a) == out {
					last["out"] = st.Val
					delete(last, "out.Offset")
				}
			case *ssa.FieldAddr:
				if core.FieldName(a) == "Offset" {
					if core.Cell(a.X) == loc {
						last["loc.Offset"] = st.Val
					}
					if core.Cell(a.X) == out {
						last["out.Offset"] = st.Val
					}
				}
			}
		}
		size := p.Resolve(ret.Results[1])
		announced := extractOf(ps.Value(), 2)
		replyOff := fieldLoad(sOff, "Offset")
		if full {
			v["full-definitions"].n++
			if size != announced {
				fail("full-definitions", "on a full resynchronisation the snapshot size handed to the cache writer is not the size the source announced: the snapshot is cut short or swallows stream bytes", ret.Pos())
			}
			if lo := last["loc.Offset"]; lo == nil || !replyOff(lo) {
				fail("full-definitions", "on a full resynchronisation the writer offset must be the reply's offset", ret.Pos())
			}
			oo, ok := last["out.Offset"].(*ssa.BinOp)
			if !ok || oo.Op != token.SUB || !replyOff(oo.X) || p.Resolve(oo.Y) != announced {
				fail("full-definitions", "on a full resynchronisation the reader must start at reply offset − announced snapshot size", ret.Pos())
			}
		} else {
			v["partial-definitions"].n++
			if oo := last["out.Offset"]; oo != nil {
				b, ok := oo.(*ssa.BinOp)
				if !(ok && b.Op == token.SUB && isRdbLeft(p.Resolve(b.X)) && isRdbSize(p.Resolve(b.Y)) && validRdb && src == "cache") {
					fail("partial-definitions", "on a granted continuation the reader start (the target's stored position) is redefined outside the cached-snapshot case", ret.Pos())
				}
				if size != announced && !isRdbSize(size) {
					fail("partial-definitions", "snapshot size is neither the announced one nor the cached snapshot's", ret.Pos())
				}
			} else if size != announced {
				fail("partial-definitions", "the snapshot size is redefined on a continuation path that does not replay the cached snapshot", ret.Pos())
			}
			// writer offset: the cache's edge (unchanged), the target's position (when that was offered to the
			// source, the cache being left behind), or the cache's right edge (cached snapshot replay)
			atTarget := false
			if lo := last["loc.Offset"]; lo != nil {
				switch {
				case isIfaceResult(lo, "GetOffsetRange", 1):
					if !(src == "cache" && validRdb) {
						fail("partial-definitions", "the writer offset is set to the cache's right edge outside the cached-snapshot case", lo.Pos())
					}
				case fieldLoad(out, "Offset")(lo):
					atTarget = true
					if src != "target" {
						fail("partial-definitions", "the writer offset is set to the target's position although the source was not asked to continue from there", lo.Pos())
					}
				default:
					fail("partial-definitions", "on a continuation the writer offset is redefined by something other than the cache's right edge or the target's position ("+lo.String()+")", lo.Pos())
				}
			} else if ls, ok := last["loc"].(*ssa.UnOp); ok {
				if a, isA := ls.X.(*ssa.Alloc); isA && a.Comment == "complit" {
					atTarget = src == "target"
					for _, ref := range *a.Referrers() {
						if fa, ok := ref.(*ssa.FieldAddr); ok && core.FieldName(fa) == "Offset" {
							for _, rr := range *fa.Referrers() {
								if st, ok := rr.(*ssa.Store); ok && !fieldLoad(out, "Offset")(st.Val) {
									atTarget = false
									fail("partial-definitions", "the cache's start point is replaced by something other than the target's position", st.Pos())
								}
							}
						}
					}
				}
			}
			if src == "target" && !atTarget {
				fail("partial-definitions", "the source continues from the target's position but the cache writer keeps the cache's old edge as its offset: the bytes are stored under wrong offsets", ret.Pos())
			}
		}
		// ---- ids
		v["one-id"].n++
		var chID, outID ssa.Value
		for _, s := range sites {
			if s.Common().IsInvoke() && s.Method == "SetRunId" {
				t := core.TypeName(s.Common().Value.Type())
				if strings.HasSuffix(t, "syncer.Channel") {
					chID = s.Args()[0]
				} else if strings.HasSuffix(t, "syncer.Output") {
					outID = s.Args()[1]
				}
			}
		}
		isReplyID := fieldLoad(sOff, "RunId")
		if chID == nil || outID == nil || !p.ResolvesTo(chID, isReplyID) || !p.ResolvesTo(outID, isReplyID) {
			fail("one-id", "cache and target bookkeeping must both be re-keyed with the reply's replication id", ret.Pos())
		}
		if !full {
			v["continue-id"].n++
			id1 := extractOf(core.SitesNamed(f, false, "pkg/redis.GetRunIds")[0].Value(), 0)
			same := p.Holds(token.EQL, isReplyID, func(x ssa.Value) bool { return x == id1 })
			forced := false
			for _, in := range p.Instrs {
				if st, ok := in.(*ssa.Store); ok {
					if fa, ok := st.Addr.(*ssa.FieldAddr); ok && fa.X == ssa.Value(sOff) && core.FieldName(fa) == "RunId" && st.Val == id1 {
						forced = true
					}
				}
			}
			if !same && !forced {
				fail("continue-id", "after CONTINUE the id used for cache and bookkeeping may be the previous id of the source: it must be forced to the current one", ret.Pos())
			}
		}
	})
	if !okEnum {
		r.Rule("R06.3", "", 3)
		r.Undecided("syncMeta/paths", f.Pos(), "too many paths")
		return
	}
	emit := func(rule, k, cons string) {
		r.Rule(rule, "", 0)
		x := v[k]
		if x.bad != "" {
			r.Fail(cons, x.pos, "%s", x.bad)
		} else {
			r.Check(x.n > 0, cons, f.Pos(), "no successful path exercised this obligation")
		}
	}
	emit("R06.3", "psync-argument", "syncMeta/psync-argument")
	emit("R06.3", "cache-cleared", "syncMeta/full-sync-clears-cache")
	emit("R06.4", "full-definitions", "syncMeta/full-sync-definitions")
	emit("R06.4", "partial-definitions", "syncMeta/continuation-definitions")
	emit("R06.6", "one-id", "syncMeta/one-id")
	emit("R06.6", "continue-id", "syncMeta/continue-keeps-current-id")
	emit("R06.10", "position-dropped", "syncMeta/full-sync-drops-position")
	emit("R06.14", "position-kept", "syncMeta/continuation-keeps-position")
	// what the output does when told so: the "none yet" marker under the id it currently has
	r.Rule("R06.10", "", 0)
	for m := range dropMethods {
		g := w.Func("(*syncer.RedisOutput)." + m)
		if g == nil {
			r.Unresolved("RedisOutput."+m, "the output's method %s called by syncMeta before re-keying was not found", m)
			continue
		}
		bad := ""
		var pos token.Pos = g.Pos()
		n := 0
		isCurID := func(x ssa.Value) bool { return fieldNameOfLoad(core.Unwrap(x)) == "RunId" }
		okEnum := core.EnumPathsN(g.Blocks[0], 0, 20000, core.Unroll, func(p *core.Path) {
			ret, ok := p.End.(*ssa.Return)
			if !ok || ret.Parent() != g || bad != "" {
				return
			}
			n++
			for _, s := range pathSites(p) {
				if s.Name == "(*syncer.RedisOutput).setCheckpoint" {
					a := s.Args()
					k, isK := core.ConstInt(core.Unwrap(a[2]))
					if len(a) >= 3 && isK && k < 0 && isCurID(p.Resolve(a[1])) {
						return
					}
					bad, pos = "the position is not replaced by the 'none yet' marker (a negative offset) under the run id the output currently has", s.Pos()
					return
				}
			}
			// nothing written: a failure that is reported (the caller does not go on to re-key) ...
			if len(ret.Results) > 0 && !pathNil(p, ret.Results[len(ret.Results)-1]) {
				return
			}
			// ... or nothing to carry over (no id yet, or the id does not change)
			for _, fct := range p.Conds {
				c, ok := core.FactCmp(fct)
				if !ok || c.Op != token.EQL {
					continue
				}
				x, y := p.Resolve(c.X), p.Resolve(c.Y)
				if isCurID(x) || isCurID(y) {
					return
				}
			}
			bad, pos = "the method returns without dropping the stored position on a path that did not establish that the run id is empty or unchanged", ret.Pos()
		})
		if !okEnum {
			r.Undecided("RedisOutput."+m+"/drops-position", g.Pos(), "too many paths")
		} else {
			r.Check(bad == "" && n > 0, "RedisOutput."+m+"/drops-position", pos, "%s", bad)
		}
	}
	// the clearLocal flag: DelRunId guarded by isFullSync || clearLocal, nothing else
	r.Rule("R06.3", "", 3)
	n := 0
	for _, s := range core.Sites(f, false) {
		if s.Common().IsInvoke() && s.Method == "DelRunId" {
			n++
			a := s.Args()[0]
			okArg := false
			if c, ok := core.Unwrap(a).(*ssa.Call); ok && c.Call.IsInvoke() && c.Call.Method.Name() == "RunId" {
				okArg = true
			}
			r.Check(okArg, "syncMeta/clears-current-cache-id", s.Pos(), "the cache cleared must be the one currently held (channel.RunId())")
		}
	}
	if n == 0 {
		r.Fail("syncMeta/clears-current-cache-id", f.Pos(), "syncMeta never clears the cache")
	}
}

func isIfaceResult(v ssa.Value, method string, idx int) bool {
	e, ok := core.Unwrap(v).(*ssa.Extract)
	if !ok || e.Index != idx {
		return false
	}
	c, ok := e.Tuple.(*ssa.Call)
	return ok && c.Call.IsInvoke() && c.Call.Method.Name() == method
}

func ruleMetaPlumbing(w *core.World, r *core.Report) {
	f := fn(w, r, "(*syncer.RedisInput).fetchInput")
	if f == nil {
		return
	}
	var meta, data core.Site
	for _, s := range core.Sites(f, false) {
		switch s.Name {
		case syncMetaFn:
			meta = s
		case "(*syncer.RedisInput).syncData":
			data = s
		}
	}
	if meta.Instr == nil || data.Instr == nil {
		r.Fail("fetchInput/plumbing", f.Pos(), "syncMeta / syncData calls not found")
		return
	}
	a := data.Args()
	isLoc := func(b ssa.Value) bool {
		if core.Unwrap(b) == extractOf(meta.Value(), 2) {
			return true
		}
		if al, ok := b.(*ssa.Alloc); ok {
			st := core.CellStores(al)
			return len(st) == 1 && st[0].Val == extractOf(meta.Value(), 2)
		}
		return false
	}
	okData := len(a) == 5 && core.Unwrap(a[2]) == extractOf(meta.Value(), 0) && core.Unwrap(a[3]) == extractOf(meta.Value(), 1) &&
		fieldOf("Offset", isLoc)(a[4])
	r.Check(okData && core.OnSuccessOf(data.Instr.Block(), meta.Value()), "fetchInput/writer-gets-meta", data.Pos(), "the cache writer must be given syncMeta's full-sync flag, snapshot size and writer offset, on its success edge")
	// the reader start returned to the caller is syncMeta's outSp
	okRet := false
	for _, in := range core.Instrs(f) {
		ret, ok := in.(*ssa.Return)
		if !ok || !core.Dominates(data.Instr, ret) {
			continue
		}
		for _, rv := range core.RetVals(ret, 0) {
			if core.Unwrap(rv) == extractOf(meta.Value(), 3) {
				okRet = true
			}
		}
	}
	r.Check(okRet, "fetchInput/reader-start-is-meta", f.Pos(), "the reader start handed to the output must be the one syncMeta decided")
}

// pathNil: the value is nil on this path (a nil constant, or tested == nil on the path).
// pathNil: v is nil on this path (a nil constant, or decided by a branch or by
// the split of an undecided error return).
func pathNil(p *core.Path, v ssa.Value) bool {
	rv := p.Resolve(v)
	if core.IsNilConst(rv) {
		return true
	}
	if n, known := p.IsNil(rv); known {
		return n
	}
	return p.Holds(token.EQL, func(x ssa.Value) bool { return x == rv }, core.IsNilConst)
}

// ---------------------------------------------------------------- R06.7 a cache is adopted for an id only when it holds data of that id

// ruleCacheAdoption: the cache's start point is what the source is asked to
// continue from. It may be reported under one of the source's ids only when
// the cache really holds data written under that id: the disk store switches
// to an id only when that id's directory exists (switching to a missing one
// renames the current directory, i.e. relabels another history's bytes), the
// memory channel answers only when the id equals the one its data was
// written under.
func ruleCacheAdoption(w *core.World, r *core.Report) {
	if f := fn(w, r, "(*pkg/store.Storer).VerifyRunId"); f != nil {
		ok := true
		nSet := 0
		var pos token.Pos = f.Pos()
		// decided on paths (the probe may live in a helper): every switch follows a successful probe of
		// <baseDir>/<the same id>, with no other probe in between
		// (one iteration of the loop over the ids at a time: what a branch decided about a value of an earlier
		// iteration says nothing about the next)
		okEnum := core.EnumPathsN(f.Blocks[0], 0, 200000, 1, func(p *core.Path) {
			var lastStat *core.Site
			sites := pathSites(p)
			for k := range sites {
				st := sites[k]
				switch st.Name {
				case "os.Stat":
					lastStat = &sites[k]
				case "(*pkg/store.Storer).SetRunId":
					nSet++
					good := false
					if lastStat != nil {
						if j, isCall := core.Unwrap(p.Resolve(lastStat.Args()[0])).(*ssa.Call); isCall && core.ResolveCall(j).Name == "path/filepath.Join" {
							if elems, okV := core.VariadicElems(j.Call.Args[0]); okV && len(elems) == 2 &&
								core.IsFieldLoad(core.Unwrap(p.Resolve(elems[0])), "Storer", "baseDir") && core.Unwrap(p.Resolve(elems[1])) == core.Unwrap(p.Resolve(st.Args()[0])) {
								if e := extractOf(lastStat.Value(), 1); e != nil && pathNil(p, e) {
									good = true
								}
							}
						}
					}
					if !good {
						ok, pos = false, st.Pos()
					}
				}
			}
		})
		ok = ok && okEnum && nSet > 0
		r.Check(ok, "Storer.VerifyRunId/adopt-existing-only", pos, "the store may switch to one of the source's ids only on the success edge of probing that id's own directory; switching to an id without a directory renames the current directory to it, and the source is then asked to continue another history's bytes under the new id")
	}
	if f := fn(w, r, "(*syncer.MemoryChannel).StartPoint"); f != nil {
		bad := ""
		n := 0
		for _, in := range core.Instrs(f) {
			ret, isRet := in.(*ssa.Return)
			if !isRet {
				continue
			}
			for _, v := range core.RetVals(ret, 0) {
				// a start point whose RunId is the channel's own id
				own := false
				core.Walk(v, func(x ssa.Value) bool {
					if core.IsFieldLoad(x, "MemoryChannel", "runId") {
						own = true
					}
					return true
				})
				if !own {
					continue
				}
				n++
				guarded := false
				for _, fct := range core.FactsAt(ret.Block()) {
					c, okC := core.FactCmp(fct)
					if !okC || c.Op != token.EQL {
						continue
					}
					if core.IsFieldLoad(core.Unwrap(c.X), "MemoryChannel", "runId") || core.IsFieldLoad(core.Unwrap(c.Y), "MemoryChannel", "runId") {
						guarded = true // id == runID
					}
					if isLenZero(c) {
						guarded = true // len(ids) == 0: the caller asks for the channel's own position
					}
				}
				if !guarded {
					bad = "the memory channel reports its own id and position without having matched it against the ids asked for"
				}
			}
		}
		r.Check(bad == "" && n >= 1, "MemoryChannel.StartPoint/own-id-only-when-asked", f.Pos(), "%s", bad)
	}
}

func isLenZero(c core.Cmp) bool {
	isLen := func(v ssa.Value) bool {
		call, ok := core.Unwrap(v).(*ssa.Call)
		if !ok {
			return false
		}
		b, ok := call.Call.Value.(*ssa.Builtin)
		return ok && b.Name() == "len"
	}
	z := func(v ssa.Value) bool { k, ok := core.ConstInt(v); return ok && k == 0 }
	return (isLen(c.X) && z(c.Y)) || (isLen(c.Y) && z(c.X))
}


// ---------------------------------------------------------------- R06.8 the disk cache's picture of its directory is refreshed at every (re)connection

// ruleCacheRefreshed: the in-memory data set of the disk cache is published
// when a transfer starts (a snapshot entry exists from the first byte on) and
// is corrected only by re-reading the directory. Every (re)connection goes
// through SetRunId; it may report success only after the directory was read
// again, otherwise a snapshot whose transfer broke stays "cached" and the
// source is asked to continue behind data nobody holds.
func ruleCacheRefreshed(w *core.World, r *core.Report) {
	if f := fn(w, r, "(*pkg/store.Storer).SetRunId"); f != nil {
		bad := ""
		var pos token.Pos = f.Pos()
		n := 0
		isReload := func(v ssa.Value) bool {
			c, ok := v.(*ssa.Call)
			if !ok {
				return false
			}
			nm := core.ResolveCall(c).Name
			return nm == "(*pkg/store.Storer).newRunId" || nm == "(*pkg/store.Storer).initDataSet"
		}
		okEnum := core.EnumPathsN(f.Blocks[0], 0, 20000, core.Unroll, func(p *core.Path) {
			ret, ok := p.End.(*ssa.Return)
			if !ok || len(ret.Results) != 1 || ret.Parent() != f {
				return
			}
			rv := p.Resolve(ret.Results[0])
			if isReload(rv) {
				n++
				return
			}
			if isnil, known := p.IsNil(rv); known && !isnil {
				return // an error
			}
			if !core.IsNilConst(rv) {
				if _, isCall := rv.(*ssa.Call); isCall {
					return // the error of a failed step, handed up
				}
			}
			n++
			for _, in := range p.Instrs {
				if v, isV := in.(ssa.Value); isV && isReload(v) {
					return
				}
			}
			bad, pos = "SetRunId reports success without re-reading the cache directory: the data set kept in memory (which lists a snapshot from the moment its transfer starts) is then trusted across a broken transfer, and the next connection continues behind a snapshot that does not exist", ret.Pos()
		})
		if !okEnum {
			r.Undecided("Storer.SetRunId/reload-on-success", f.Pos(), "too many paths")
		} else {
			r.Check(bad == "" && n > 0, "Storer.SetRunId/reload-on-success", pos, "%s (successful paths=%d)", bad, n)
		}
	}
	if f := fn(w, r, "(*pkg/store.Storer).newRunId"); f != nil {
		bad := ""
		var pos token.Pos = f.Pos()
		n := 0
		okEnum := core.EnumPathsN(f.Blocks[0], 0, 20000, core.Unroll, func(p *core.Path) {
			ret, ok := p.End.(*ssa.Return)
			if !ok || len(ret.Results) != 1 || ret.Parent() != f || !pathNil(p, ret.Results[0]) {
				return
			}
			n++
			for _, in := range p.Instrs {
				if c, isC := in.(*ssa.Call); isC && core.ResolveCall(c).Name == "(*pkg/store.Storer).initDataSet" {
					return
				}
			}
			// no id (empty, or the initial marker): there is no directory to read
			if len(f.Params) == 2 {
				id := ssa.Value(f.Params[1])
				isId := func(v ssa.Value) bool { return v == id }
				if p.Holds(token.EQL, isId, isConstStr("")) || p.Holds(token.EQL, isId, isConstStr("?")) {
					return
				}
			}
			// the id was cleared: nothing to read
			for _, in := range p.Instrs {
				if c, isC := in.(*ssa.Call); isC && core.ResolveCall(c).Name == "(*pkg/store.Storer).resetDataSet" {
					return
				}
			}
			bad, pos = "newRunId succeeds without reading the directory of the id it switched to", ret.Pos()
		})
		if !okEnum {
			r.Undecided("Storer.newRunId/reads-directory", f.Pos(), "too many paths")
		} else {
			r.Check(bad == "" && n > 0, "Storer.newRunId/reads-directory", pos, "%s (successful paths=%d)", bad, n)
		}
	}
}

// ---------------------------------------------------------------- R06.9 the in-memory resume position

// ruleInMemResumePoint: with resume-from-breakpoint off the target's resume
// position lives in RedisOutput.checkpointInMem. A fresh output must report
// "no position" (empty run id) so that the first connection takes a snapshot;
// a run id recorded without the offset it belongs to reads as "offset 0 of
// the current history" and is answered with PSYNC <id> 1.
func ruleInMemResumePoint(w *core.World, r *core.Report) {
	groups := 0
	for _, f := range w.Funcs() {
		if f.Pkg == nil || !strings.HasSuffix(f.Pkg.Pkg.Path(), "/syncer") {
			continue
		}
		var runId, offset ssa.Value
		var pos token.Pos
		touched := false
		underCp := func(a ssa.Value) bool {
			fa, ok := a.(*ssa.FieldAddr)
			return ok && core.FieldName(fa) == "checkpointInMem"
		}
		record := func(field string, v ssa.Value, at token.Pos) {
			switch field {
			case "RunId":
				runId, pos = v, at
			case "Offset":
				offset = v
			}
		}
		for _, in := range core.OwnInstrs(f) {
			st, ok := in.(*ssa.Store)
			if !ok {
				continue
			}
			if fa, isFa := st.Addr.(*ssa.FieldAddr); isFa && underCp(fa.X) {
				touched = true
				record(core.FieldName(fa), st.Val, st.Pos())
				continue
			}
			if underCp(st.Addr) {
				touched = true
				pos = st.Pos()
				// the whole record: where its fields come from
				src := core.Unwrap(st.Val)
				if ld, isLd := src.(*ssa.UnOp); isLd && ld.Op == token.MUL {
					for _, in2 := range core.OwnInstrs(f) {
						st2, ok := in2.(*ssa.Store)
						if !ok {
							continue
						}
						if fa, isFa := st2.Addr.(*ssa.FieldAddr); isFa && fa.X == ld.X {
							record(core.FieldName(fa), st2.Val, st.Pos())
						}
					}
					if _, isAlloc := ld.X.(*ssa.Alloc); !isAlloc {
						runId, offset = ld, ld // a record built elsewhere: both fields travel together
					}
				} else {
					runId, offset = src, src
				}
			}
		}
		if !touched {
			continue
		}
		groups++
		idSet := runId != nil
		if c, isC := runId.(*ssa.Const); isC && c.Value != nil && constant.StringVal(c.Value) == "" {
			idSet = false
		}
		offSet := offset != nil
		if _, isC := offset.(*ssa.Const); isC {
			offSet = false
		}
		name := shortName(core.FuncName(f))
		if f.Parent() != nil {
			name = shortName(core.FuncName(f.Parent())) + "$closure"
		}
		r.Check(!idSet || offSet, name+"/in-memory-position-id-with-offset", pos, "the in-memory resume position is given a run id here but no offset: a position 'offset 0 under the source's current id' makes the next connection ask for PSYNC <id> 1 instead of taking the snapshot a fresh target needs")
	}
	if groups == 0 {
		r.Fail("in-memory-position-id-with-offset", token.NoPos, "no writer of the in-memory resume position found")
	}
}

// ---------------------------------------------------------------- R06.11 the target's position is reported under the id it is stored under

// ruleStartPointKeepsItsId: the input compares the id of the target's position
// with the ids the source reports and sends PSYNC <that id> <offset+1>. The id is
// part of the question: a position stored under the source's previous id must be
// offered under the previous id, so that the source applies its "not beyond the
// switch offset" test. RedisOutput.StartPoint must hand out the checkpoint's own
// id and offset; re-labelled with the current id, a target that holds bytes of
// the old master beyond the switch offset is continued with the new master's
// stream.
func ruleStartPointKeepsItsId(w *core.World, r *core.Report) {
	f := fn(w, r, "(*syncer.RedisOutput).StartPoint")
	if f == nil {
		return
	}
	isCpField := func(v ssa.Value, name string) bool {
		ld, ok := core.Unwrap(v).(*ssa.UnOp)
		if !ok || ld.Op != token.MUL {
			return false
		}
		fa, ok := ld.X.(*ssa.FieldAddr)
		return ok && core.FieldName(fa) == name && strings.HasSuffix(core.TypeName(fa.X.Type()), "CheckpointInfo")
	}
	bad := ""
	var pos token.Pos = f.Pos()
	n := 0
	okEnum := core.EnumPathsN(f.Blocks[0], 0, 200000, 1, func(p *core.Path) {
		ret, isRet := p.End.(*ssa.Return)
		if !isRet || ret.Parent() != f || len(ret.Results) != 2 || bad != "" || !pathNil(p, ret.Results[1]) {
			return
		}
		// only the plain path that found a checkpoint
		viaCp := false
		for _, s := range pathSites(p) {
			if strings.HasSuffix(s.Name, "RedisOutput).checkpoint") {
				viaCp = true
			}
		}
		if !viaCp {
			return
		}
		// a little memory model of the struct locals along the path
		mem := map[ssa.Value]map[string]ssa.Value{}
		snap := map[ssa.Value]map[string]ssa.Value{}
		cp := func(m map[string]ssa.Value) map[string]ssa.Value {
			o := map[string]ssa.Value{}
			for k, v := range m {
				o[k] = v
			}
			return o
		}
		for _, in := range p.Instrs {
			switch x := in.(type) {
			case *ssa.Store:
				if fa, ok := x.Addr.(*ssa.FieldAddr); ok {
					if a, isA := fa.X.(*ssa.Alloc); isA && strings.HasSuffix(core.TypeName(a.Type()), "syncer.StartPoint") {
						if mem[a] == nil {
							mem[a] = map[string]ssa.Value{}
						}
						mem[a][core.FieldName(fa)] = p.Resolve(x.Val)
					}
				} else if a, isA := x.Addr.(*ssa.Alloc); isA && strings.HasSuffix(core.TypeName(a.Type()), "syncer.StartPoint") {
					if s, ok := snap[x.Val]; ok {
						mem[a] = cp(s)
					} else {
						mem[a] = map[string]ssa.Value{"?": x.Val}
					}
				}
			case *ssa.UnOp:
				if a, isA := x.X.(*ssa.Alloc); isA && x.Op == token.MUL {
					if m, ok := mem[a]; ok {
						snap[x] = cp(m)
					}
				}
			case *ssa.Call:
				// a method on the variable (Initialize) rewrites it
				for _, arg := range x.Call.Args {
					if a, isA := arg.(*ssa.Alloc); isA {
						mem[a] = map[string]ssa.Value{"?": x}
					}
				}
			}
		}
		res := snap[ret.Results[0]]
		if res == nil {
			res = snap[p.Resolve(ret.Results[0])]
		}
		if res == nil || res["?"] != nil {
			return // not built from the checkpoint on this path (the 'nothing stored' answer)
		}
		n++
		if !isCpField(res["RunId"], "RunId") || !isCpField(res["Offset"], "Offset") {
			bad, pos = "the start point handed to the input is not the checkpoint's own (id, offset): a position stored under the source's previous id is offered under another id, and the source's 'not beyond the switch offset' test no longer applies to it", ret.Pos()
		}
	})
	if !okEnum {
		r.Undecided("RedisOutput.StartPoint/reports-the-stored-id", f.Pos(), "too many paths")
		return
	}
	r.Check(bad == "" && n > 0, "RedisOutput.StartPoint/reports-the-stored-id", pos, "%s (paths answering from the checkpoint=%d)", bad, n)
}

// ---------------------------------------------------------------- R06.12 the start-up maintenance does not re-key the checkpoint

// ruleStartupKeepsCheckpointId: when the tool starts, the source reports its
// current and its previous replication id. A checkpoint stored under the
// previous id is a position of the previous history: whether it can be
// continued is the source's decision (PSYNC <previous id> <offset+1> is refused
// beyond the offset at which the source switched ids). The start-up path must
// therefore not move the checkpoint to the current id before the source was
// asked: the id list it hands to UpdateCheckpoint (whose first element the
// checkpoint is keyed by afterwards) must depend on where the checkpoint is
// stored (GetCheckpointHash), and the output must be configured with that id.
func ruleStartupKeepsCheckpointId(w *core.World, r *core.Report) {
	f := fn(w, r, "(*syncer.syncer).newOutput")
	if f == nil {
		return
	}
	var dependsOnHolder func(v ssa.Value, depth int) bool
	dependsOnHolder = func(v ssa.Value, depth int) bool {
		found := false
		core.Walk(v, func(x ssa.Value) bool {
			if found {
				return false
			}
			var call *ssa.Call
			switch y := x.(type) {
			case *ssa.Call:
				call = y
			case *ssa.Extract:
				call, _ = y.Tuple.(*ssa.Call)
			case *ssa.UnOp:
				// a variable that a helper fills through a pointer it was handed
				if al := core.Cell(y.X); al != nil && y.Op == token.MUL && depth < 3 {
					var refs []ssa.Instruction
					for _, alias := range core.Aliases(al) {
						if rr := alias.Referrers(); rr != nil {
							refs = append(refs, *rr...)
						}
					}
					for _, ref := range refs {
						ci, isCall := ref.(*ssa.Call)
						if !isCall {
							continue
						}
						h := ci.Call.StaticCallee()
						if h == nil || len(h.Blocks) == 0 {
							continue
						}
						off := len(ci.Call.Args) - len(h.Params)
						for k, a := range ci.Call.Args {
							if core.Cell(a) != al || k-off < 0 || off < 0 {
								continue
							}
							for _, in := range core.OwnInstrs(h) {
								if st, isSt := in.(*ssa.Store); isSt && st.Addr == ssa.Value(h.Params[k-off]) && dependsOnHolder(st.Val, depth+1) {
									found = true
								}
							}
						}
					}
				}
			}
			if call == nil {
				return !found
			}
			nm := core.ResolveCall(call).Name
			if strings.HasSuffix(nm, "checkpoint.GetCheckpointHash") {
				found = true
				return false
			}
			if g := call.Call.StaticCallee(); g != nil && len(g.Blocks) > 0 && depth < 3 && g.Pkg != nil && strings.HasPrefix(g.Pkg.Pkg.Path(), core.ModulePath) {
				for _, in := range core.OwnInstrs(g) {
					if ret, ok := in.(*ssa.Return); ok {
						for _, rv := range ret.Results {
							if dependsOnHolder(rv, depth+1) {
								found = true
							}
						}
					}
				}
			}
			return !found
		})
		return found
	}
	n := 0
	seenSite := map[ssa.Instruction]bool{}
	for _, g := range reachableFuncs(f) {
		nm := core.FuncName(g)
		if strings.Contains(nm, "RedisOutput).SetRunId") || strings.Contains(nm, "resolveBisync") || strings.Contains(nm, "Bisync") {
			continue // the re-keying after the source has answered; the bidirectional namespace has its own rules (C17)
		}
		for _, d := range core.DeepFuncs(g) {
			for _, s := range core.SitesNamed(d, false, "pkg/redis/checkpoint.UpdateCheckpoint") {
				if s.Instr.Parent() != d || seenSite[s.Instr] {
					continue
				}
				seenSite[s.Instr] = true
				n++
				a := s.Args()
				// the ids on the path that serves the plain (non-bidirectional) replay
				okIds := len(a) == 3 && dependsOnHolder(a[2], 0)
				r.Check(okIds, shortName(core.FuncName(outermost(d)))+"/startup-keeps-checkpoint-id", s.Pos(), "at start-up the checkpoint is re-keyed with an id list that does not depend on where it is stored: a checkpoint under the source's previous id is moved to the current id before PSYNC, and a position beyond the switch offset is then continued as if it belonged to the current history")
			}
		}
	}
	if n == 0 {
		r.Fail("newOutput/startup-keeps-checkpoint-id", f.Pos(), "the start-up maintenance of the checkpoint was not found")
		return
	}
	// the output is configured with the id the checkpoint is stored under
	okCfg := false
	for _, in := range core.Instrs(f) {
		st, ok := in.(*ssa.Store)
		if !ok {
			continue
		}
		fa, ok := st.Addr.(*ssa.FieldAddr)
		if !ok || core.FieldName(fa) != "RunId" || !strings.HasSuffix(core.TypeName(fa.X.Type()), "RedisOutputConfig") {
			continue
		}
		if dependsOnHolder(st.Val, 0) {
			okCfg = true
		}
	}
	r.Check(okCfg, "newOutput/output-run-id", f.Pos(), "the output must be configured with the run id the checkpoint is stored under (the start-up maintenance's answer): configured with the source's current id it reports the position under that id, and SetRunId never moves the checkpoint")
}

// ---------------------------------------------------------------- R06.13 DropStartPoint leaves nothing of the old id behind

// callInvolves: the call's callee, or a closure handed to it, reaches target by static calls within the package.
func callInvolves(ci ssa.CallInstruction, target string) bool {
	s := core.ResolveCall(ci)
	if s.Name == target || callsInto(s.Callee, target) {
		return true
	}
	for _, a := range ci.Common().Args {
		if mc, ok := core.Unwrap(a).(*ssa.MakeClosure); ok {
			if g, isFn := mc.Fn.(*ssa.Function); isFn && callsInto(g, target) {
				return true
			}
		}
	}
	return false
}

// ruleDropRemovesEveryRecord: on a stand-alone target the stream writes the
// checkpoint into the database of the replayed commands, and GetCheckpoint
// takes the highest offset of all databases. The "none yet" marker of
// DropStartPoint goes through a fresh connection, into one database. A record
// of the old id left in another database would still win when SetRunId carries
// the position over to the new id: the new history would be continued from an
// offset of the previous one (W30). With resumption enabled, the marker write
// is reached only after the old id's records were removed (DelCheckpoint visits
// every database), and a failed removal ends DropStartPoint with the error.
func ruleDropRemovesEveryRecord(w *core.World, r *core.Report) {
	f := fn(w, r, "(*syncer.RedisOutput).DropStartPoint")
	if f == nil {
		return
	}
	const del = "pkg/redis/checkpoint.DelCheckpoint"
	var marker core.Site
	for _, s := range core.Sites(f, false) {
		if s.Instr.Parent() != f || !strings.HasSuffix(s.Name, "RedisOutput).setCheckpoint") {
			continue
		}
		for _, a := range s.Args() {
			if k, ok := core.ConstInt(a); ok && k == -1 {
				marker = s
			}
		}
	}
	if marker.Instr == nil {
		r.Unresolved("DropStartPoint/marker", "the 'none yet' marker write was not found")
		return
	}
	var guard *ssa.If
	for _, b := range f.Blocks {
		iff, ok := b.Instrs[len(b.Instrs)-1].(*ssa.If)
		if ok && core.IsFieldLoad(core.Unwrap(iff.Cond), "", "EnableResumeFromBreakPoint") && b.Dominates(marker.Instr.Block()) {
			guard = iff
		}
	}
	var drop core.Site
	isDrop := func(in ssa.Instruction) bool {
		ci, ok := in.(ssa.CallInstruction)
		if !ok || in.Parent() != f || !callInvolves(ci, del) {
			return false
		}
		drop = core.ResolveCall(ci)
		return true
	}
	isMarker := func(in ssa.Instruction) bool { return in == marker.Instr }
	start := f.Blocks[0]
	if guard != nil {
		start = guard.Block().Succs[0]
	}
	esc := core.PathFromBlock(start, isMarker, isDrop)
	okFail := drop.Instr != nil && failureReturned(f, drop)
	r.Check(esc == nil && okFail, "DropStartPoint/removes-every-record", marker.Pos(), "with resumption enabled the 'none yet' marker is written on a path that did not remove the old id's records from every database (or went on after failing to): a record left in another database of a stand-alone target still wins in GetCheckpoint when SetRunId carries the position over, and the new replication id inherits an offset of the previous history (path without removal: %v, failure ends the drop: %v)", esc != nil, okFail)
}
